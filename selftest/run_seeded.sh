#!/bin/bash
# selftest/run_seeded.sh [pattern...]  — regression over the sub-agent changes kept in seeded/<id>/patch.diff:
# applies each one in a scratch worktree of /repo (never /repo itself), runs the quick check of the property
# it breaks through VERIF_REPO, and reports CAUGHT / MISSED. A pattern restricts the run to ids containing it.
cd /verif
PATS="$*"
WT=/tmp/verif-seedrun
git -C /repo worktree remove --force $WT >/dev/null 2>&1; rm -rf $WT
git -C /repo worktree add --detach $WT HEAD -f >/dev/null 2>&1 || exit 2
trap 'git -C /repo worktree remove --force $WT >/dev/null 2>&1; rm -rf $WT' EXIT
caught=0; missed=0
for d in seeded/*/; do
  b=$(basename $d); f=$d/patch.diff
  prop=$(python3 -c "import json,sys;print(json.load(open('$d/meta.json'))['breaks_property'])")
  if [ -n "$PATS" ]; then hit=0; for p in $PATS; do case "$b" in *$p*) hit=1;; esac; done; [ $hit -eq 1 ] || continue; fi
  r=$(SEED_REPO=$WT ./tools/seedtest.sh $f $prop quick 1 2>&1 | tail -3)
  v=$(echo "$r" | grep -o "seedtest: [A-Z]*" | tail -1)
  s=$(echo "$r" | grep -o "signature=.*" | head -1 | cut -c1-140)
  echo "$b  =>  $v  $s"
  case "$v" in *CAUGHT*) caught=$((caught+1));; *) missed=$((missed+1));; esac
done
echo "seeded caught=$caught not-caught=$missed"
