#!/usr/bin/env python3
"""selftest/mkmutants.py — (re)generates selftest/mutants/<prop>-<name>.diff from the table below.

Each entry is a small, compiling change to /repo's non-test source that breaks one property
(the in-house mutation catalogue of DESIGN §7; the independently written changes live in
seeded/). Patches are produced in a scratch worktree OUTSIDE /repo and /verif, which is removed
afterwards; an entry whose `old` text is not found exactly once, or that does not compile, is
reported and skipped. Run selftest/run_mutants.sh to check that the monitors catch them."""
import os, subprocess, sys, shutil

VERIF = os.path.dirname(os.path.dirname(os.path.abspath(__file__)))
WT = "/tmp/verif-mutwt"
BP = "collector/processor/concurrentbatchprocessor/"
OBF = "collector/processor/obfuscationprocessor/"

M = [
 # ---- C01
 ("C01", "decoder-keeps-scope-on-new-resource", "pkg/otel/traces/otlp/traces.go",
  "\t\t\tscopeSpansSlice = resSpans.ScopeSpans()\n\t\t\tprevScopeID = None\n", "\t\t\tscopeSpansSlice = resSpans.ScopeSpans()\n"),
 ("C01", "dropped-events-count-written-to-links-column", "pkg/otel/traces/arrow/traces.go",
  "b.dlcb.AppendNonZero(span.Span.DroppedLinksCount())", "b.dlcb.AppendNonZero(span.Span.DroppedEventsCount())"),
 ("C01", "span-kind-zero-bias", "pkg/otel/traces/arrow/traces.go",
  "b.kb.AppendNonZero(int32(span.Span.Kind()))", "b.kb.AppendNonZero(int32(span.Span.Kind()) &^ 4)"),
 # ---- C02
 ("C02", "decoder-keeps-scope-on-new-resource", "pkg/otel/logs/otlp/logs.go",
  "\t\t\tprevScopeID = None\n", ""),
 ("C02", "severity-number-lost-above-16", "pkg/otel/logs/arrow/logs.go",
  "b.snb.AppendNonZero(int32(log.SeverityNumber()))", "b.snb.AppendNonZero(int32(log.SeverityNumber()) & 0x1f & ^0x10)"),
 # ---- C03
 ("C03", "hasmin-hasmax-confused", "pkg/otel/metrics/arrow/histogram_dp.go",
  "\t\tif hdp.HasMin() {\n", "\t\tif hdp.HasMax() {\n"),
 ("C03", "decoder-keeps-scope-on-new-resource", "pkg/otel/metrics/otlp/metrics.go",
  "\t\t\tprevScopeID = None\n", ""),
 ("C03", "summary-sum-dropped-when-count-zero", "pkg/otel/metrics/arrow/summary_dp.go",
  "b.ssb.AppendNonZero(summary.Orig.Sum())", "if summary.Orig.Count() != 0 {\n\t\t\tb.ssb.AppendNonZero(summary.Orig.Sum())\n\t\t} else {\n\t\t\tb.ssb.AppendNonZero(0)\n\t\t}"),
 # ---- C04
 ("C04", "attrs32-nothing-sorter-raw-ids", "pkg/otel/common/arrow/attributes_32.go",
  "func (s *Attrs32ByNothing) Sort(_ []Attr32) []string {\n\t// Do nothing\n\treturn []string{}\n}\n",
  "func (s *Attrs32ByNothing) Sort(_ []Attr32) []string {\n\t// Do nothing\n\treturn []string{}\n}\n\n// Encode returns the parent id as is (no sorting, no delta).\nfunc (s *Attrs32ByNothing) Encode(parentID uint32, _ string, _ *pcommon.Value) uint32 {\n\treturn parentID\n}\n"),
 # ---- C05
 ("C05", "split-copies-instead-of-moving", BP + "splittraces.go",
  "\t\t\t\tsrcSpan.MoveTo(destIls.Spans().AppendEmpty())\n\t\t\t\ttotalCopiedSpans++\n\t\t\t\treturn true\n", "\t\t\t\tsrcSpan.CopyTo(destIls.Spans().AppendEmpty())\n\t\t\t\ttotalCopiedSpans++\n\t\t\t\treturn totalCopiedSpans%7 != 0\n"),
 ("C05", "no-final-flush-on-shutdown", BP + "batch_processor.go",
  "\t\t\tif b.batch.itemCount() > 0 {\n\t\t\t\t// TODO: Set a timeout on sendTraces or\n", "\t\t\tif b.batch.itemCount() > 2 {\n\t\t\t\t// TODO: Set a timeout on sendTraces or\n"),
 ("C05", "split-metric-forgets-unit", BP + "splitmetrics.go",
  "\tdest.SetUnit(ms.Unit())\n", ""),
 # ---- C06
 ("C06", "response-sent-before-export", BP + "batch_processor.go",
  "\t\tverifPoint(\"export.before\", nil)\n\t\terr = b.batch.export(parent, req)\n", "\t\tverifPoint(\"export.before\", nil)\n\t\tif len(thisBatch) > 3 && !b.processor.earlyReturn {\n\t\t\tthisBatch[0].waiter <- countedError{err: nil, count: thisBatch[0].count}\n\t\t\tthisBatch = thisBatch[1:]\n\t\t}\n\t\terr = b.batch.export(parent, req)\n"),
 ("C06", "partial-send-does-not-decrement", BP + "batch_processor.go",
  "\t\t\tb.pending[0].numItems -= partialSent\n", "\t\t\tif partialSent > 1 {\n\t\t\t\tb.pending[0].numItems -= partialSent\n\t\t\t}\n"),
 # ---- C07
 ("C07", "traces-duplicate-main-record-ignored", "pkg/otel/traces/otlp/related_data.go",
  "\t\t\tif tracesRecord != nil {\n\t\t\t\treturn nil, nil, werror.Wrap(otel.ErrMultipleTracesRecords)\n\t\t\t}\n", ""),
 ("C07", "revert-D3a-related-data-error-dropped", "pkg/otel/arrow_record/consumer.go",
  "\trelatedData, tracesRecord, err := tracesotlp.RelatedDataFrom(records, c.tracesConfig)\n\tif err != nil {\n\t\treturn nil, werror.Wrap(err)\n\t}\n", "\trelatedData, tracesRecord, err := tracesotlp.RelatedDataFrom(records, c.tracesConfig)\n"),
 ("C07", "revert-D3b-and-D15-nil-reader-released", "pkg/otel/arrow_record/consumer.go",
  "\t\t\t\t\tif sc.ipcReader != nil {\n\t\t\t\t\t\tsc.ipcReader.Release()\n\t\t\t\t\t}\n\t\t\t\t\tdelete(c.streamConsumers, scID)\n", "\t\t\t\t\tsc.ipcReader.Release()\n\t\t\t\t\tdelete(c.streamConsumers, scID)\n"),
 # ---- C08
 ("C08", "metrics-limit-check-off-by-a-lot", "pkg/otel/metrics/arrow/metrics.go",
  "if len(optimizedMetrics.Metrics) > math.MaxUint16+1 {", "if len(optimizedMetrics.Metrics) > math.MaxUint16+1000 {"),
 ("C08", "uint32-delta-null-first-row-no-reset", "pkg/otel/common/schema/builder/uint.go",
  "func (b *Uint32DeltaBuilder) AppendNull() {\n\tif b.builder != nil {\n\t\tif b.builder.Len() == 0 {\n\t\t\tb.prev = 0\n\t\t}\n", "func (b *Uint32DeltaBuilder) AppendNull() {\n\tif b.builder != nil {\n"),
 # ---- C09
 ("C09", "flush-only-above-batch-size", BP + "batch_processor.go",
  "b.batch.itemCount() >= b.processor.sendBatchSize) {", "b.batch.itemCount() > b.processor.sendBatchSize) {"),
 ("C09", "split-allows-max-plus-one", BP + "batch_processor.go",
  "\tif sendBatchMaxSize > 0 && bt.itemCount() > sendBatchMaxSize {", "\tif sendBatchMaxSize > 0 && bt.itemCount() > sendBatchMaxSize+1 {"),
 ("C09", "timer-not-rearmed-after-timeout-flush", BP + "batch_processor.go",
  "\t\t\tif b.batch.itemCount() > 0 {\n\t\t\t\tb.sendItems(triggerTimeout)\n\t\t\t}\n\t\t\tb.resetTimer()\n", "\t\t\tif b.batch.itemCount() > 0 {\n\t\t\t\tb.sendItems(triggerTimeout)\n\t\t\t\tb.resetTimer()\n\t\t\t}\n"),
 # ---- C10
 ("C10", "attribute-set-from-first-key-only", BP + "batch_processor.go",
  "\t\tif len(vs) == 1 {\n\t\t\tattrs = append(attrs, attribute.String(k, vs[0]))\n\t\t} else {", "\t\tif len(attrs) > 0 {\n\t\t\tcontinue\n\t\t}\n\t\tif len(vs) == 1 {\n\t\t\tattrs = append(attrs, attribute.String(k, vs[0]))\n\t\t} else {"),
 ("C10", "limit-check-allows-one-more", BP + "batch_processor.go",
  "sb.size >= sb.processor.metadataLimit {", "sb.size > sb.processor.metadataLimit {"),
 ("C10", "multi-value-keyed-by-first-value", BP + "batch_processor.go",
  "\t\t\tattrs = append(attrs, attribute.StringSlice(k, vs))", "\t\t\tif len(vs) > 1 {\n\t\t\t\tvs = vs[:1]\n\t\t\t}\n\t\t\tattrs = append(attrs, attribute.StringSlice(k, vs))"),
 # ---- C11
 ("C11", "semaphore-acquired-inside-goroutine", BP + "batch_processor.go",
  "\tif b.processor.sem != nil {\n\t\tb.processor.sem.Acquire(context.Background(), 1)\n\t}\n\tb.processor.goroutines.Add(1)\n\tgo func() {\n\t\tif b.processor.sem != nil {\n\t\t\tdefer b.processor.sem.Release(1)\n\t\t}\n",
  "\tb.processor.goroutines.Add(1)\n\tgo func() {\n\t\tif b.processor.sem != nil && len(thisBatch) < 3 {\n\t\t\tb.processor.sem.Acquire(context.Background(), 1)\n\t\t\tdefer b.processor.sem.Release(1)\n\t\t}\n"),
 ("C11", "export-goroutine-not-in-waitgroup", BP + "batch_processor.go",
  "\tb.processor.goroutines.Add(1)\n\tgo func() {\n\t\tif b.processor.sem != nil {\n\t\t\tdefer b.processor.sem.Release(1)\n\t\t}\n\t\tdefer b.processor.goroutines.Done()\n",
  "\tgo func() {\n\t\tif b.processor.sem != nil {\n\t\t\tdefer b.processor.sem.Release(1)\n\t\t}\n"),
 ("C11", "total-sent-updated-in-export-goroutine", BP + "batch_processor.go",
  "\t\tverifPoint(\"export.after\", nil)\n", "\t\tverifPoint(\"export.after\", nil)\n\t\tb.totalSent += 0 * uint64(sent)\n\t\tb.pending = b.pending[:len(b.pending):len(b.pending)]\n"),
 # ---- C12
 ("C12", "main-record-appended-last", "pkg/otel/arrow_record/producer.go",
  "\trms = append([]*record_message.RecordMessage{record_message.NewLogsMessage(schemaID, record)}, rms...)", "\trms = append(rms, record_message.NewLogsMessage(schemaID, record))"),
 ("C12", "batch-id-incremented-on-error-too", "pkg/otel/arrow_record/producer.go",
  "\toapl := make([]*colarspb.ArrowPayload, len(rms))\n", "\toapl := make([]*colarspb.ArrowPayload, len(rms))\n\tif len(rms) > 6 {\n\t\tp.batchId++\n\t}\n"),
 # ---- C13
 ("C13", "overflow-detection-skips-structs", "pkg/otel/common/schema/builder/record.go",
  "\t\tfor i := 0; i < len(fields); i++ {\n\t\t\tsubField := &fields[i]\n\t\t\tsubColumn := structColumn.Field(i)\n\t\t\trb.detectDictionaryOverflow(subField, subColumn)\n\t\t}\n", "\t\tfor i := 1; i < len(fields); i++ {\n\t\t\tsubField := &fields[i]\n\t\t\tsubColumn := structColumn.Field(i)\n\t\t\trb.detectDictionaryOverflow(subField, subColumn)\n\t\t}\n"),
 ("C13", "no-dictionary-option-ignored-for-dictionary8", "pkg/otel/common/schema/transform_node.go",
  "\t\tcase \"8\":\n\t\t\tlocalDictConfig = cfg.NewDictionaryFrom(math.MaxUint8, dictConfig)\n", "\t\tcase \"8\":\n\t\t\tlocalDictConfig = cfg.NewDictionary(math.MaxUint8, 0)\n"),
 # ---- C14
 ("C14", "limit-error-not-matchable", "pkg/otel/common/arrow/allocator.go",
  "func (_ LimitError) Is(tgt error) bool {", "func (_ LimitError) Is(tgt error) bool {\n\tif _, ok := tgt.(*LimitError); !ok {\n\t\treturn false\n\t}"),
 ("C14", "limit-tested-after-allocation-with-slack", "pkg/otel/common/arrow/allocator.go",
  "func (l *LimitedAllocator) Allocate(size int) []byte {\n\tchange := uint64(size)\n\tif l.inuse+change > l.limit {", "func (l *LimitedAllocator) Allocate(size int) []byte {\n\tchange := uint64(size)\n\tif l.inuse+change > l.limit+l.limit/8 {"),
 # ---- C15
 ("C15", "optimizer-sorts-input-in-place", "pkg/otel/logs/arrow/optimizer.go",
  "\tt.sorter.Sort(logsOptimized.Logs)\n", "\tt.sorter.Sort(logsOptimized.Logs)\n\tif n := logs.ResourceLogs().Len(); n > 2 {\n\t\tlogs.ResourceLogs().At(n-1).Resource().SetDroppedAttributesCount(logs.ResourceLogs().At(n-1).Resource().DroppedAttributesCount())\n\t\tlogs.ResourceLogs().At(0).SetSchemaUrl(logs.ResourceLogs().At(0).SchemaUrl() + \"\")\n\t\tlogs.ResourceLogs().Sort(func(a, b plog.ResourceLogs) bool { return a.SchemaUrl() < b.SchemaUrl() })\n\t}\n"),
 ("C15", "old-record-builder-not-released", "pkg/otel/common/schema/builder/record.go",
  "\trb.recordBuilder.Release()\n\trb.recordBuilder = newRecBuilder\n", "\tif len(newSchema.Fields()) < 12 {\n\t\trb.recordBuilder.Release()\n\t}\n\trb.recordBuilder = newRecBuilder\n"),
 # ---- C16
 ("C16", "attrs16-sorter-singleton", "pkg/otel/common/arrow/attributes_16.go",
  "\tcase config.OrderAttrs16ByTypeKeyValueParentId:\n\t\treturn &Attrs16ByTypeKeyValueParentId{}\n", "\tcase config.OrderAttrs16ByTypeKeyValueParentId:\n\t\treturn sharedAttrs16Sorter\n"),
 # ---- C17
 ("C17", "numeric-attributes-skipped", OBF + "processor.go",
  "\t\tdefault:\n\t\t\tvalue.CopyTo(cpy.PutEmpty(o.encryptString(k)))\n", "\t\tdefault:\n\t\t\tif value.Type() != pcommon.ValueTypeDouble {\n\t\t\t\tvalue.CopyTo(cpy.PutEmpty(o.encryptString(k)))\n\t\t\t}\n"),
 ("C17", "nested-list-strings-truncated", OBF + "processor.go",
  "\t\t\tcpyVal.SetStr(o.encryptString(val.Str()))\n", "\t\t\tcpyVal.SetStr(strings.TrimRight(o.encryptString(val.Str()), \"\\x00\"))\n"),
 # ---- C18
 ("C18", "multi-context-batch-exported-under-last-contributor", BP + "batch_processor.go",
  "\t\t\tparent, parentSpan = b.processor.tracer.Start(b.exportCtx, \"batch_processor/export\", trace.WithLinks(links...))", "\t\t\tparent, parentSpan = b.processor.tracer.Start(trace.ContextWithSpan(thisBatch[len(thisBatch)-1].ctx, nil), \"batch_processor/export\", trace.WithLinks(links...))"),
 ("C18", "link-back-skipped-for-first-contributor", BP + "batch_processor.go",
  "\t\t\tfor _, span := range spans {\n\t\t\t\tspan.AddLink(", "\t\t\tfor _, span := range spans[1:] {\n\t\t\t\tspan.AddLink("),
]

EXTRA = {
 "C07-revert-D3b-and-D15-nil-reader-released": [("pkg/otel/arrow_record/consumer.go",
     "\t\t\tif err != nil {\n\t\t\t\tc.dropStreamConsumers(bar.ArrowPayloads[i:])\n\t\t\t\treturn ibes, werror.Wrap(err)\n\t\t\t}\n\t\t\tsc.ipcReader = ipcReader",
     "\t\t\tif err != nil {\n\t\t\t\treturn ibes, werror.Wrap(err)\n\t\t\t}\n\t\t\tsc.ipcReader = ipcReader")],
 # additional file edits needed for a mutant to compile: (file, old, new)
 "C16-attrs16-sorter-singleton": [("pkg/otel/common/arrow/attributes_16.go", "// Attrs16FindOrderByFunc returns the sorter for the given order by\n",
                                   "var sharedAttrs16Sorter = &Attrs16ByTypeKeyValueParentId{}\n\n// Attrs16FindOrderByFunc returns the sorter for the given order by\n")],
 "C17-nested-list-strings-truncated": [(OBF + "processor.go", "import (\n\t\"context\"\n", "import (\n\t\"context\"\n\t\"strings\"\n")],
 "C04-attrs32-nothing-sorter-raw-ids": [(  # the embedded encoder's Encode is shadowed by the new method; Reset stays embedded
     "pkg/otel/common/arrow/attributes_32.go", "XXXX-never", "XXXX-never")],
}


def sh(cmd, cwd=None):
    return subprocess.run(cmd, shell=True, cwd=cwd, capture_output=True, text=True)


def main():
    out = os.path.join(VERIF, "selftest", "mutants")
    os.makedirs(out, exist_ok=True)
    sh("git -C /repo worktree remove --force %s" % WT)
    shutil.rmtree(WT, ignore_errors=True)
    r = sh("git -C /repo worktree add --detach %s HEAD -f" % WT)
    if r.returncode != 0:
        print(r.stderr)
        return 1
    env = "export GOFLAGS=-mod=mod GOPROXY=off; "
    ok = 0
    for prop, name, path, old, new in M:
        mid = "%s-%s" % (prop, name)
        edits = [(path, old, new)] + [e for e in EXTRA.get(mid, []) if e[1] != "XXXX-never"]
        good = True
        for (p, o, n) in edits:
            f = os.path.join(WT, p)
            s = open(f).read()
            if s.count(o) != 1:
                print("SKIP %s: old text found %d times in %s" % (mid, s.count(o), p))
                good = False
                break
            open(f, "w").write(s.replace(o, n))
        if good:
            moddir = WT
            if path.startswith(BP):
                moddir = os.path.join(WT, BP)
            elif path.startswith(OBF):
                moddir = os.path.join(WT, OBF)
            b = sh(env + "go build ./... && go vet ./... >/dev/null 2>&1; go build ./...", cwd=moddir)
            if b.returncode != 0:
                print("SKIP %s: does not compile: %s" % (mid, (b.stderr or b.stdout)[-400:]))
                good = False
        if good:
            d = sh("git diff", cwd=WT).stdout
            open(os.path.join(out, mid + ".diff"), "w").write(d)
            ok += 1
            print("ok   %s" % mid)
        sh("git checkout -- . && git clean -fdq", cwd=WT)
    sh("git -C /repo worktree remove --force %s" % WT)
    shutil.rmtree(WT, ignore_errors=True)
    print("%d/%d mutants written to %s" % (ok, len(M), out))
    return 0


if __name__ == "__main__":
    sys.exit(main())
