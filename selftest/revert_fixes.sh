#!/bin/bash
# selftest/revert_fixes.sh [id ...]
# For every `fixed` entry of known_findings.json: reverse-apply its fix commit to /repo (working
# tree only, restored afterwards), run the quick check of the entry's property and require a
# VIOLATION. Shows that a fixed finding is reported again if it ever returns.
cd /verif
IDS="$*"
python3 - "$IDS" <<'PY' > /tmp/revert_list.txt
import json,sys
want=sys.argv[1].split()
for f in json.load(open('/verif/known_findings.json'))['findings']:
    if f['status']=='fixed' and (not want or f['id'] in want):
        print(f['id'], f['property'], f['commit'])
PY
rc=0
while read id prop commit; do
  git -C /repo diff $commit $commit~1 > /tmp/revert_$id.diff
  echo "=== $id ($prop, revert of $commit)"
  ./tools/seedtest.sh /tmp/revert_$id.diff $prop quick 1 | tail -4
  [ ${PIPESTATUS[0]} -eq 0 ] || rc=1
  rm -f /tmp/revert_$id.diff
done < /tmp/revert_list.txt
rm -f /tmp/revert_list.txt
exit $rc
