#!/bin/bash
# selftest/run_mutants.sh [pattern]   — runs every selftest/mutants/<prop>-*.diff (and seeded/*/patch.diff
# with --seeded) against the quick check of its property, in a scratch worktree of /repo.
cd /verif
PATS="$*"   # optional substrings; a mutant runs when its name contains any of them
WT=/tmp/verif-mutrun
git -C /repo worktree remove --force $WT >/dev/null 2>&1; rm -rf $WT
git -C /repo worktree add --detach $WT HEAD -f >/dev/null 2>&1 || exit 2
trap 'git -C /repo worktree remove --force $WT >/dev/null 2>&1; rm -rf $WT' EXIT
caught=0; missed=0
for f in selftest/mutants/*.diff; do
  b=$(basename $f .diff); prop=${b%%-*}
  if [ -n "$PATS" ]; then hit=0; for p in $PATS; do case "$b" in *$p*) hit=1;; esac; done; [ $hit -eq 1 ] || continue; fi
  r=$(SEED_REPO=$WT ./tools/seedtest.sh $f $prop quick 1 2>&1 | tail -3)
  v=$(echo "$r" | grep -o "seedtest: [A-Z]*" | tail -1)
  s=$(echo "$r" | grep -o "signature=.*" | head -1 | cut -c1-140)
  echo "$b  =>  $v  $s"
  case "$v" in *CAUGHT*) caught=$((caught+1));; *) missed=$((missed+1));; esac
done
echo "mutants caught=$caught not-caught=$missed"
