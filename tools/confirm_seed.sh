#!/bin/bash
# tools/confirm_seed.sh <worktree> <module-subdir> <patch> <demo_test.go> <demo-dest-subdir> <go-test-run-regex> [suite-pkgs]
# Confirms a seeded change in a scratch worktree (never /repo): (1) patch applies and the module
# builds, (2) the module's existing suite passes with it, (3) the demonstration FAILS with it,
# (4) the demonstration PASSES without it. Leaves the worktree clean.
set -u
WT=$1; MOD=$2; PATCH=$(readlink -f "$3"); DEMO=$(readlink -f "$4"); DEST=$5; RUN=$6; PKGS=${7:-./...}
export GOFLAGS=-mod=mod GOPROXY=off
cd "$WT" || exit 2
git checkout -q -- . ; git clean -fdq
git apply --check "$PATCH" || { echo "CONFIRM: patch does not apply"; exit 2; }
git apply "$PATCH"
( cd "$WT/$MOD" && go build ./... ) || { echo "CONFIRM: does not compile"; git checkout -q -- .; exit 2; }
echo "--- existing suite with the change ($MOD $PKGS)"
( cd "$WT/$MOD" && go test -mod=mod -vet=off -count=1 $PKGS 2>&1 | grep -v "no test files" | tail -15 ); S=${PIPESTATUS[0]}
( cd "$WT/$MOD" && go test -mod=mod -vet=off -count=1 $PKGS >/dev/null 2>&1 ); S=$?
echo "suite exit=$S"
cp "$DEMO" "$WT/$DEST/zz_demo_test.go"
# EXTRA_FILES: space-separated helper files the demonstration needs (copied next to it, removed afterwards)
for x in ${EXTRA_FILES:-}; do cp "$x" "$WT/$DEST/zz_extra_$(basename $x)"; done
echo "--- demo WITH the change"
( cd "$WT/$DEST" && go test -mod=mod -vet=off -count=1 -run "$RUN" . 2>&1 | tail -8 ); 
( cd "$WT/$DEST" && go test -mod=mod -vet=off -count=1 -run "$RUN" . >/dev/null 2>&1 ); W=$?
git apply -R "$PATCH"
echo "--- demo WITHOUT the change"
( cd "$WT/$DEST" && go test -mod=mod -vet=off -count=1 -run "$RUN" . 2>&1 | tail -4 );
( cd "$WT/$DEST" && go test -mod=mod -vet=off -count=1 -run "$RUN" . >/dev/null 2>&1 ); O=$?
rm -f "$WT/$DEST/zz_demo_test.go" "$WT/$DEST"/zz_extra_*; git checkout -q -- . ; git clean -fdq
echo "CONFIRM: suite_with_change_exit=$S demo_with_change_exit=$W demo_without_change_exit=$O"
[ $S -eq 0 ] && [ $W -ne 0 ] && [ $O -eq 0 ] && { echo "CONFIRM: OK"; exit 0; }
echo "CONFIRM: NOT CONFIRMED"; exit 1
