#!/bin/bash
# tools/keep.sh <Cxx> <i> <title> <dest> <result-text> <needs-text>   (after tools/process_seed.sh confirmed it)
P=$1; I=$2; T=$3; DEST=$4; RES=$5; NEEDS=$6
OUT=/tmp/wt/out_$P
RUN=$(grep -o "func Test[A-Za-z0-9_]*" $OUT/demo$I\_test.go | sed 's/func //' | paste -sd'|')
cp $OUT/demo$I\_test.go /tmp/wt/demo_${P}_$I\_test.go
python3 /verif/tools/keep_seed.py "$P-$T" $P $OUT/patch$I.diff /tmp/wt/demo_${P}_$I\_test.go $DEST "go test -mod=mod -vet=off -count=1 -run '^($RUN)\$' ./$DEST/" "$RES" "$NEEDS"
cp $OUT/notes$I.md /verif/seeded/$P-$T/notes.md
