#!/usr/bin/env python3
"""Replaces the seeded-change table of DESIGN.md §7a by the output of tools/seed_table.py."""
import subprocess, os, re
root = os.path.dirname(os.path.dirname(os.path.abspath(__file__)))
tab = subprocess.run(["python3", os.path.join(root, "tools", "seed_table.py")], capture_output=True, text=True).stdout.rstrip("\n")
p = os.path.join(root, "DESIGN.md")
lines = open(p).read().split("\n")
a = next(i for i, l in enumerate(lines) if l.startswith("| Seeded change |"))
b = a
while b < len(lines) and lines[b].startswith("|"):
    b += 1
lines[a:b] = tab.split("\n")
open(p, "w").write("\n".join(lines))
print("table rows:", len(tab.split("\n")) - 2)
