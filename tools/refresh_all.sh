#!/bin/bash
# tools/refresh_all.sh [seed] — runs every check's quick command on /repo (rewrites evidence/), then validates
# MANIFEST.json and every evidence file against the schemas. Prints one line per check.
cd /verif; SEED=${1:-1}; rc=0
for p in C01 C02 C03 C04 C05 C06 C07 C08 C09 C10 C11 C12 C13 C14 C15 C16 C17 C18; do
  out=$(./check $p quick --seed $SEED 2>&1); r=$?
  echo "$out" | grep -E "^(VIOLATION|INCONCLUSIVE|$p )" | cut -c1-200 | head -4
  echo "rc=$r $p"; [ $r -eq 0 ] || rc=1
done
python3-vt - <<'PY'
import json, jsonschema, glob
jsonschema.validate(json.load(open('/verif/MANIFEST.json')), json.load(open('/root/.vp/MANIFEST.schema.json')))
sch = json.load(open('/root/.vp/EVIDENCE.schema.json'))
n = 0
for f in sorted(glob.glob('/verif/evidence/C*.json')):
    jsonschema.validate(json.load(open(f)), sch); n += 1
print('manifest + %d evidence files valid' % n)
PY
exit $rc
