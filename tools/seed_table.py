#!/usr/bin/env python3
"""Prints the markdown table of DESIGN §7a from seeded/*/meta.json."""
import json, glob, os
rows = []
for f in sorted(glob.glob(os.path.join(os.path.dirname(os.path.dirname(os.path.abspath(__file__))), "seeded", "*", "meta.json"))):
    m = json.load(open(f))
    res = m["result"]
    verdict = "caught" if res.lower().startswith("caught") else ("caught after strengthening" if "caught" in res.lower() else "MISSED")
    rows.append((m["id"], m["breaks_property"], verdict, m["needs_to_manifest"], res))
print("| Seeded change | Property | Verdict | Needs to manifest | Check / signature (and what was strengthened) |")
print("|---|---|---|---|---|")
for r in rows:
    print("| `%s` | %s | %s | %s | %s |" % tuple(x.replace("|", "\\|").replace("\n", " ") for x in r))
