#!/usr/bin/env python3
"""tools/keep_seed.py <id> <property> <patch> <demo> <demo-dest-dir> <demo-run-cmd> <caught-by|MISSED> <needs...>
Stores a confirmed seeded change under /verif/seeded/<id>/."""
import sys, os, json, shutil
sid, prop, patch, demo, dest, run, caught = sys.argv[1:8]
needs = " ".join(sys.argv[8:])
d = os.path.join(os.path.dirname(os.path.dirname(os.path.abspath(__file__))), "seeded", sid)
os.makedirs(d, exist_ok=True)
shutil.copy(patch, os.path.join(d, "patch.diff"))
shutil.copy(demo, os.path.join(d, os.path.basename(demo).replace("_test.go", "_test.go.txt")))
meta = {"id": sid, "breaks_property": prop, "needs_to_manifest": needs,
        "demonstration": {"file": os.path.basename(demo).replace("_test.go", "_test.go.txt"), "place_in": dest, "run": run,
                          "note": "stored with a .txt suffix so that it is not compiled with /verif; copy it as <name>_test.go into the directory above"},
        "confirmed_by": "tools/confirm_seed.sh in a scratch worktree outside /repo and /verif: compiles, the module's existing suite passes with the change, the demonstration fails with the change and passes without it",
        "checked_with": "tools/seedtest.sh seeded/%s/patch.diff %s quick" % (sid, prop),
        "result": caught}
json.dump(meta, open(os.path.join(d, "meta.json"), "w"), indent=1)
print("kept", d)
