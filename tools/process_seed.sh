#!/bin/bash
# tools/process_seed.sh <Cxx> <i> <title-kebab> <demo-dest-dir-relative-to-repo> [tier]
# Confirms /tmp/wt/out_Cxx/patch<i>.diff + demo<i>_test.go in the scratch worktree /tmp/wt/Cxx (never /repo), then
# runs the property's quick check against that worktree with the patch applied (SEED_REPO), prints the verdict.
set -u
P=$1; I=$2; TITLE=$3; DEST=$4; TIER=${5:-quick}
WT=/tmp/wt/$P; OUT=/tmp/wt/out_$P
case $DEST in collector/processor/concurrentbatchprocessor*) MOD=collector/processor/concurrentbatchprocessor; PK=./...;;
  collector/processor/obfuscationprocessor*) MOD=collector/processor/obfuscationprocessor; PK=./...;;
  *) MOD=.; PK=./pkg/otel/...;; esac
RUN=$(grep -o "func Test[A-Za-z0-9_]*" $OUT/demo$I\_test.go | sed 's/func //' | paste -sd'|')
cd /verif
echo "== confirm $P-$TITLE (run: $RUN)"
tools/confirm_seed.sh $WT $MOD $OUT/patch$I.diff $OUT/demo$I\_test.go $DEST "^($RUN)\$" "$PK" 2>&1 | tail -6
echo "== check"
SEED_REPO=$WT tools/seedtest.sh $OUT/patch$I.diff $P $TIER 2>&1 | tail -8
