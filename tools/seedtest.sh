#!/bin/bash
# tools/seedtest.sh <patch-file> <Cxx> [tier] [seed]
# Applies a seeded change to /repo, runs the property's check, and ALWAYS restores /repo.
# Exit 0 when the check reported a VIOLATION (the seed was caught), 1 when it was missed,
# 2 when the patch does not apply / the engine does not build.
set -u
PATCH=$(readlink -f "$1"); PROP=$2; TIER=${3:-quick}; SEED=${4:-1}
cd /verif
if ! git -C /repo diff --quiet; then echo "seedtest: /repo has uncommitted changes, refusing"; exit 2; fi
if ! git -C /repo apply --check "$PATCH" 2>/dev/null; then echo "seedtest: patch does not apply"; exit 2; fi
SAVE=$(mktemp -d /tmp/seedtest.XXXXXX)
cp evidence/$PROP.json "$SAVE/" 2>/dev/null
git -C /repo apply "$PATCH"
trap 'git -C /repo checkout -- . ; git -C /repo clean -fdq -- pkg collector >/dev/null 2>&1; cp "$SAVE/$PROP.json" evidence/ 2>/dev/null; rm -rf "$SAVE"' EXIT
OUT=$(./check "$PROP" "$TIER" --seed "$SEED" 2>&1); RC=$?
echo "$OUT" | grep -E "^(VIOLATION|KNOWN-FINDING|INCONCLUSIVE|$PROP )|signature=" | cut -c1-300 | head -12
case $RC in
  1) echo "seedtest: CAUGHT ($PROP $TIER seed=$SEED)"; exit 0;;
  0) echo "seedtest: MISSED ($PROP $TIER seed=$SEED)"; exit 1;;
  *) echo "seedtest: INCONCLUSIVE rc=$RC"; exit 2;;
esac
