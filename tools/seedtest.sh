#!/bin/bash
# tools/seedtest.sh <patch-file> <Cxx> [tier] [seed]
# Applies a seeded change to a checkout of the repository, runs the property's check against it and
# ALWAYS restores the checkout. By default the checkout is /repo itself (as the brief prescribes:
# git -C /repo apply ...; run; git -C /repo checkout -- .). With SEED_REPO=<dir> (a scratch worktree
# outside /repo and /verif) the check is pointed at that checkout through VERIF_REPO and its evidence
# goes to a scratch directory, so that other work on /repo and /verif/evidence is not disturbed.
# Exit 0 when the check reported a VIOLATION (caught), 1 when it was missed, 2 otherwise.
set -u
PATCH=$(readlink -f "$1"); PROP=$2; TIER=${3:-quick}; SEED=${4:-1}
REPO=${SEED_REPO:-/repo}
cd /verif
if ! git -C "$REPO" diff --quiet; then echo "seedtest: $REPO has uncommitted changes, refusing"; exit 2; fi
if ! git -C "$REPO" apply --check "$PATCH" 2>/dev/null; then echo "seedtest: patch does not apply"; exit 2; fi
SAVE=$(mktemp -d /tmp/seedtest.XXXXXX)
if [ "$REPO" != /repo ]; then export VERIF_REPO="$REPO" VERIF_EVIDENCE_DIR="$SAVE/evidence"; else cp evidence/$PROP.json "$SAVE/" 2>/dev/null; fi
git -C "$REPO" apply "$PATCH"
trap 'git -C "$REPO" checkout -- . ; git -C "$REPO" clean -fdq -- pkg collector >/dev/null 2>&1; [ "$REPO" = /repo ] && cp "$SAVE/$PROP.json" evidence/ 2>/dev/null; rm -rf "$SAVE"' EXIT
OUT=$(./check "$PROP" "$TIER" --seed "$SEED" 2>&1); RC=$?
echo "$OUT" | grep -E "^(VIOLATION|KNOWN-FINDING|INCONCLUSIVE|$PROP )|signature=" | cut -c1-300 | head -12
case $RC in
  1) echo "seedtest: CAUGHT ($PROP $TIER seed=$SEED)"; exit 0;;
  0) echo "seedtest: MISSED ($PROP $TIER seed=$SEED)"; exit 1;;
  *) echo "seedtest: INCONCLUSIVE rc=$RC"; exit 2;;
esac
