#!/usr/bin/env python3
"""Regenerates /verif/MANIFEST.json from the table below (single source of truth)."""
import json, os, subprocess

VERIF = os.path.dirname(os.path.dirname(os.path.abspath(__file__)))

BASELINE_OFF = ("for m in . collector/cmd/otelarrowcol collector/processor/concurrentbatchprocessor "
                "collector/processor/obfuscationprocessor; do (cd /repo/$m && GOFLAGS=-mod=mod GOPROXY=off "
                "go test -mod=mod -json -vet=off -count=1 -timeout 25m ./...); done")

# property -> (engine, category, technique, level text, level note, design ref)
CHECKS = {
    "C01": ("rt", "exploration", "runtime differential monitor: canonical multiset comparison of decoded vs encoded telemetry over generated stream histories, under -race/checkptr",
            "Every batch of thousands of PRNG-generated hostile stream histories (zero/boundary/colliding values, near-identical containers, schema evolution, 1-40 batches) is encoded and decoded by the real Producer/Consumer and compared as a multiset of spans with their resource/scope; held = no difference, error or panic on the histories listed in the evidence.",
            "Trusts pdata's OTLP/JSON marshaler as the serialisation both sides are compared in; strip list limited to fields outside docs/data_model.md; sampled, not exhaustive.", "§5.2, §6 C01"),
    "C02": ("rt", "exploration", "runtime differential monitor: canonical multiset comparison over generated log stream histories, under -race/checkptr",
            "Same oracle as C01 for logs: bodies of every AnyValue type, same scope under several resources, unstable-sort ties.",
            "As C01.", "§5.2, §6 C02"),
    "C03": ("rt", "exploration", "runtime differential monitor: canonical multiset comparison over generated metric stream histories, under -race/checkptr",
            "Same oracle as C01 for metrics: all six metric kinds, zero counts, all-zero bucket lists, zero offsets, present-but-zero sum/min/max, exemplars; presence of optionals is part of the canonical form.",
            "As C01; exp-histogram zeroThreshold is outside the Arrow data model and stripped.", "§5.2, §6 C03"),
}

PENDING = {}


def main():
    props = [json.loads(l) for l in open(os.path.join(VERIF, "properties.jsonl"))]
    ids = [p["id"] for p in props]
    try:
        commits = subprocess.run(["git", "-C", "/repo", "log", "--format=%h %s", "7f177bf6..HEAD"], capture_output=True,
                                 text=True).stdout.strip().split("\n")
    except Exception:
        commits = []
    hook_commits = [c.split()[0] for c in commits if c and "verif hook" in c]
    checks = []
    for pid in ids:
        if pid not in CHECKS:
            continue
        eng, cat, tech, text, note, ref = CHECKS[pid]
        checks.append({
            "property_id": pid,
            "quick_cmd": "./check %s quick" % pid,
            "thorough_cmd": "./check %s thorough" % pid,
            "evidence_file": "/verif/evidence/%s.json" % pid,
            "replay_cmd_template": "./check %s --replay {path}" % pid,
            "engine": {"rt": "rtmon", "bp": "bpmon", "obf": "obfmon"}[eng],
            "level_claimed": {"category": cat, "text": text, "design_ref": "DESIGN.md " + ref},
            "level_note": note,
            "technique": tech,
        })
    na = [{"property_id": pid, "reason": PENDING.get(pid, "check not built yet in this round (runtime monitor planned in DESIGN.md §6)")}
          for pid in ids if pid not in CHECKS]
    m = {
        "version": 1,
        "setup_cmd": "./setup.sh",
        "hooks": {
            "guard": "verif",
            "enable": "go1.26 test -c -race -tags verif (GOFLAGS=-mod=mod GOPROXY=off GOSUMDB=off GOTOOLCHAIN=local), harness modules replace the repository modules with /repo",
            "baseline_off_cmd": BASELINE_OFF,
            "source_commits": hook_commits,
            "add_only": True,
        },
        "engines": [
            {"name": "rtmon", "path": "harness/rt", "serves_properties": [p for p in ids if p in CHECKS and CHECKS[p][0] == "rt"],
             "kind_free_text": "go test binary (-race, tag verif) driving the real Producer/Consumer with generated histories; monitors: canonical multiset comparator, IPC frame/dictionary monitor with an independent Arrow reader, observer/allocator/panic monitors"},
            {"name": "bpmon", "path": "harness/bp", "serves_properties": [p for p in ids if p in CHECKS and CHECKS[p][0] == "bp"],
             "kind_free_text": "go test binary (-race, tag verif) running the real batch processor in testing/synctest bubbles (virtual time) and in real-time stress; boundary event log checked offline; porcupine for admission"},
            {"name": "obfmon", "path": "harness/obf", "serves_properties": [p for p in ids if p in CHECKS and CHECKS[p][0] == "obf"],
             "kind_free_text": "go test binary (-race) driving the real obfuscation processor; paired structural walk + substitution-table monitor"},
        ],
        "checks": checks,
        "not_applicable": na,
        "notes": "Every check: ./check <id> [quick|thorough] [--seed N] rebuilds the engine from /repo's working tree, runs the workload in journalled child processes, writes evidence/<id>.json; exit 0 held, 1 VIOLATION, 2 inconclusive. Known findings: known_findings.json.",
    }
    json.dump(m, open(os.path.join(VERIF, "MANIFEST.json"), "w"), indent=1)
    print("MANIFEST.json: %d checks, %d not_applicable" % (len(checks), len(na)))


if __name__ == "__main__":
    main()
