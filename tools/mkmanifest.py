#!/usr/bin/env python3
"""Regenerates /verif/MANIFEST.json from the table below (single source of truth)."""
import json, os, subprocess

VERIF = os.path.dirname(os.path.dirname(os.path.abspath(__file__)))

BASELINE_OFF = ("for m in . collector/cmd/otelarrowcol collector/processor/concurrentbatchprocessor "
                "collector/processor/obfuscationprocessor; do (cd /repo/$m && GOFLAGS=-mod=mod GOPROXY=off "
                "go test -mod=mod -json -vet=off -count=1 -timeout 25m ./...); done")

# property -> (engine, category, technique, level text, level note, design ref)
RT_NOTE = "Trusts pdata's OTLP/JSON marshaler as the serialisation both sides are compared in; strip list limited to fields outside docs/data_model.md; cases are a PRNG-determined finite sample ('held' = held on the executions listed in the evidence)."
BP_NOTE = "Events are recorded at the component boundary under one mutex; bubble mode uses testing/synctest virtual time (the component's own clock) and perturbs schedules with virtual delays at verif hook points - not a systematic enumeration of interleavings; stress mode adds real parallelism under the race detector."

CHECKS = {
    "C01": ("rt", "exploration", "runtime differential monitor (canonical multiset comparison of decoded vs encoded telemetry over generated stream histories) under -race/checkptr",
            "Every batch of PRNG-generated hostile stream histories (zero/boundary/colliding values, near-identical containers, schema evolution, 1-40 batches; batches of 32,768-65,535 attribute-bearing items, also with an event and a link per item so that the related tables number more parents over the stream than 16 bits hold; streams of 400-1,500 batches under a 4 MiB consumer memory limit; wide batches in which every dictionary-encodable field of every record type is unique per item) is encoded and decoded by the real Producer/Consumer and compared as a multiset of spans with their resource/scope; held = no difference, error or panic on the histories listed in the evidence.",
            RT_NOTE, "§5.2, §6 C01"),
    "C02": ("rt", "exploration", "runtime differential monitor (canonical multiset comparison) over generated log stream histories, under -race/checkptr",
            "Same oracle as C01 for logs: bodies of every AnyValue type, same scope under several resources, unstable-sort ties.", RT_NOTE, "§5.2, §6 C02"),
    "C03": ("rt", "exploration", "runtime differential monitor (canonical multiset comparison) over generated metric stream histories, under -race/checkptr",
            "Same oracle as C01 for metrics: all six metric kinds, zero counts, all-zero bucket lists, zero offsets, present-but-zero sum/min/max, exemplars; presence of optionals is part of the canonical form.",
            RT_NOTE + " Exp-histogram zeroThreshold is outside the Arrow data model and stripped.", "§5.2, §6 C03"),
    "C04": ("rt", "exploration", "runtime differential monitor over the producer option product and dictionary-state-machine histories, transitions observed through ProducerObserver",
            "A default consumer decodes histories produced under the option product (thorough: all 10,080 trace option combinations) and under cardinality ramps that cross 255 / 65,535 / the limit in overflow and reset regimes, wide batches in which all dictionary columns cross at once, and a 70-batch evolving stream (a replaced IPC stream every few batches) decoded under a memory limit four times its measured need; coverage gates require each transition kind to be observed.",
            RT_NOTE + " The 32->64-bit index transition (4e9 distinct values) is unreachable.", "§6 C04"),
    "C05": ("bp", "exploration", "runtime monitor: boundary event log of the real processor (synctest bubbles + real-time stress), offline exactly-once / content / container-identity checker over unique item ids; systematic single-delay enumeration over hook hits",
            "Every item carries a unique id; the offline checker proves on each recorded execution that accepted items reach the next consumer exactly once with unchanged content and container identity (resource, scope, schema URLs, metric descriptor), across merges, splits and the shutdown flush; a delay-sweep layer re-runs a base scenario once per (hook hit, duration) with exactly that hit held back, and a third of all scenarios have callers cancel their own context on return.",
            BP_NOTE, "§5.4, §6 C05"),
    "C06": ("bp", "fault_enumeration", "runtime monitor: offline outcome checker over the boundary log; all 2^k export outcome assignments (k<=6) and cancellation at every distinct virtual instant enumerated in synctest bubbles",
            "Each caller's return value and return instant are checked against the exports that actually carried its items, for every success/failure assignment of short export sequences, every cancellation instant of a base run and every single delayed hook hit of a base run (delay-sweep), plus sampled scenarios; a call that never returns (virtual-time horizon or bubble deadlock) is a violation.",
            BP_NOTE + " 'Promptly' is restated as zero virtual time after the context ended.", "§6 C06"),
    "C07": ("rt", "fault_enumeration", "runtime fault injection at the consumer boundary: exhaustive single payload-level faults + sampled combinations, panic/discard monitor, gap-aware follow-up batches",
            "For each signal and prefix length every single payload-level fault of the target batch is applied (relabel to every type, drop, duplicate, move, reverse, rotate, empty, unknown/stale schema id) followed by two well-formed batches; no panic, no success with a discarded main record (present as main, or intact under another label only); a 300-batch stream in which nine batches of ten are damaged (relabelled payload, readers in step) and refused must still decode every intact batch completely under a 4 MiB memory limit.",
            "IPC byte splicing / bit flips are outside the property's domain and not generated; which payloads the consumer fed to its readers is inferred from the arrow_batch_records metric it publishes.", "§6 C07"),
    "C08": ("rt", "exploration", "runtime panic monitor (recover + child-process journal) over D-any producer histories and the oversize family, under -race/checkptr",
            "Producer calls on everything pdata can hold (invalid UTF-8, extreme timestamps, degenerate lists, oversize batches before/between valid ones, wide batches that push every dictionary column across its index width in one build) must return; oversize inputs must be refused or, if accepted, round-trip.",
            "Process-fatal events are attributed through the per-case journal; sampled inputs.", "§6 C08"),
    "C09": ("bp", "exploration", "runtime monitor on the virtual clock (synctest): size bounds, per-item flush deadline from the enqueue instant, offline quiescence invariant over the event log",
            "On the component's own (virtual) clock every export is non-empty and within send_batch_max_size, every item is exported by accepted+timeout (or at the accept instant without timer), and at every quiescent instant each shard buffers fewer than send_batch_size items.",
            BP_NOTE + " Quiescence clause evaluated with max_concurrency=0; with max_concurrency=k>0 the deadline clause exempts exactly the items in whose window k exports were in flight at some instant (the property's proviso, decided from export begin/end events); no cancellations in the timing layers.", "§6 C09"),
    "C10": ("bp", "exploration", "runtime monitor: per-export tenant isolation check + porcupine linearizability check of the admission history against a capacity-bounded set",
            "Every exported batch is checked for a single metadata combination and matching client metadata; the recorded Consume(combo)->admitted|refused history of every scenario (bubble with a delay between map miss and lock, a delay-sweep that holds back every single hook hit of a base run in turn, and real-time stress) is checked with porcupine against a set bounded by metadata_cardinality_limit.",
            BP_NOTE + " Porcupine timeout (2 min) => inconclusive.", "§6 C10"),
    "C11": ("bp", "exploration", "race detector + in-flight gauge monitor + synctest deadlock/leak detection + goroutine stack scan after Shutdown",
            "In-flight exports per combination never exceed max_concurrency, Shutdown returns only after accepted items were exported and exports returned, no goroutine survives (bubble end / stack scan), no race report with a repository frame, no bubble deadlock; cancel-window and delay-sweep layers place cancellations and single delays at every instant / hook hit of a base run.",
            BP_NOTE + " The race detector only reports races that occur on executed, overlapping accesses.", "§6 C11"),
    "C12": ("rt", "exploration", "online stream monitor with an independent Arrow IPC reader per schema id and an IPC message-type scanner, run a second time by a lagging receiver over the batches as returned",
            "Every emitted BatchArrowRecords of mixed-signal, schema-changing, dictionary-resetting histories is checked for batch-id continuity, main-first, unique payload types, non-empty related payloads, write-once and never-reused schema ids, and per-id IPC stream validity by an independent reader - online and again after the whole history was produced (batches kept as returned); GetAndResetStats() is polled between batches; Produce calls that fail on their first IPC write (verif hook) must consume no batch id and leave the streams valid.",
            "The independent reader is arrow-go's ipc package (independent of the repository's Consumer, not of the Arrow library).", "§5.3, §6 C12"),
    "C13": ("rt", "exploration", "online dictionary monitor: recursive walk over every column decoded by an independent Arrow reader",
            "Every dictionary in every payload of unbounded-cardinality histories stays within min(configured limit, 2^index bits) across several overflow/reset cycles per limit; with dictionaries disabled none occurs.",
            "'Arbitrarily long' restated as several overflow/reset cycles; 32->64-bit transition unreachable.", "§6 C13"),
    "C14": ("rt", "exploration", "runtime monitor over a memory-limit ladder: error classification, published arrow_memory_inuse gauge, metamorphic monotonicity",
            "Each encoded stream is decoded under 16 limits: 12 from 1 byte to 70 MiB around its measured peak plus 2^32, 2^63-1, 2^63 and 2^64-1: no panic, reported in-use within [0,limit], first refusal recognisable as ErrConsumerMemoryLimit, decoded batches equal the input, decoded prefix monotone in the limit; a big batch followed by a small one on new streams is scanned over 49 limits and each, once decodable, must stay decodable under every larger limit (also across a mid-batch refusal).",
            "In-use memory is observed through the metric the consumer publishes at call boundaries.", "§6 C14"),
    "C15": ("rt", "fault_enumeration", "CheckedAllocator leak monitor + input immutability monitor, with encode errors injected at every verif hook site x hit",
            "Producer histories (schema updates, overflow/reset, natural oversize errors, and an error injected at each encode-path site on its 1st..8th hit) must leave the protobuf serialisation of every input unchanged and CurrentAlloc()==0 after Close.",
            "Injected errors stand for encode errors no valid input reaches; allocator accounting by arrow-go's CheckedAllocator.", "§6 C15"),
    "C16": ("rt", "exploration", "Go race detector over concurrently running independent streams + differential comparison with a sequential run",
            "N producer/consumer pairs (in every other round all consumers are built from one option list created once) run concurrently on 16/4 Ps started on a barrier; zero race reports with a repository frame and every stream's per-batch canonical hash equals its sequential run.",
            "The race detector only reports races on executed, overlapping accesses; overlap is measured and gated.", "§6 C16"),
    "C17": ("obf", "exploration", "runtime monitor: paired structural walk of input vs output + substitution-table (function / injective / length) monitor per processor instance",
            "Hostile documents in encrypt_all and attribute-list modes for the three signals: structure, counts, order, types and every non-targeted byte preserved; the substitution table accumulated per processor instance is a length-preserving injection that actually replaces (a distinct targeted original of 8+ bytes must not come out unchanged; key_length 1/2/3/16/128) (all 256 one-byte strings enumerated; thorough: all 65,536 two-byte strings); one instance is also driven from 8 goroutines (in odd cases the FIRST use of fresh instances is concurrent), half of the list-mode instances leave encrypt_all at its default, and half of the documents are submitted under cancelled / part-way cancelled request contexts.",
            "Targeted set follows the code's behaviour; below listed keys and for named trace fields in list mode both 'unchanged' and 'F(original)' are accepted.", "§6 C17"),
    "C18": ("bp", "exploration", "runtime monitor: export context / cancellation observation + recorded spans (SpanRecorder), with enumerated merge positions and cancellation subsets",
            "Exports fed by >=2 request contexts must carry no caller value, never be cancelled by a caller, have no parent and link to/from every contributor; single-context exports are children of that request (callers end their own span on return in half of the scenarios); enumerated for 2..20 contributors with the differing context at every position and every cancellation subset of n<=4 contributors.",
            BP_NOTE, "§6 C18"),
}

PENDING = {}


def main():
    props = [json.loads(l) for l in open(os.path.join(VERIF, "properties.jsonl"))]
    ids = [p["id"] for p in props]
    try:
        commits = subprocess.run(["git", "-C", "/repo", "log", "--format=%h %s", "7f177bf6..HEAD"], capture_output=True,
                                 text=True).stdout.strip().split("\n")
    except Exception:
        commits = []
    hook_commits = [c.split()[0] for c in commits if c and "verif hook" in c]
    checks = []
    for pid in ids:
        if pid not in CHECKS:
            continue
        eng, cat, tech, text, note, ref = CHECKS[pid]
        checks.append({
            "property_id": pid,
            "quick_cmd": "./check %s quick" % pid,
            "thorough_cmd": "./check %s thorough" % pid,
            "evidence_file": "/verif/evidence/%s.json" % pid,
            "replay_cmd_template": "./check %s --replay {path}" % pid,
            "engine": {"rt": "rtmon", "bp": "bpmon", "obf": "obfmon"}[eng],
            "level_claimed": {"category": cat, "text": text, "design_ref": "DESIGN.md " + ref},
            "level_note": note,
            "technique": tech,
        })
    na = [{"property_id": pid, "reason": PENDING.get(pid, "check not built yet in this round (runtime monitor planned in DESIGN.md §6)")}
          for pid in ids if pid not in CHECKS]
    m = {
        "version": 1,
        "setup_cmd": "./setup.sh",
        "hooks": {
            "guard": "verif",
            "enable": "go1.26 test -c -race -tags verif (GOFLAGS=-mod=mod GOPROXY=off GOSUMDB=off GOTOOLCHAIN=local), harness modules replace the repository modules with /repo",
            "baseline_off_cmd": BASELINE_OFF,
            "source_commits": hook_commits,
            "add_only": True,
        },
        "engines": [
            {"name": "rtmon", "path": "harness/rt", "serves_properties": [p for p in ids if p in CHECKS and CHECKS[p][0] == "rt"],
             "kind_free_text": "go test binary (-race, tag verif) driving the real Producer/Consumer with generated histories; monitors: canonical multiset comparator, IPC frame/dictionary monitor with an independent Arrow reader, observer/allocator/panic monitors"},
            {"name": "bpmon", "path": "harness/bp", "serves_properties": [p for p in ids if p in CHECKS and CHECKS[p][0] == "bp"],
             "kind_free_text": "go test binary (-race, tag verif) running the real batch processor in testing/synctest bubbles (virtual time) and in real-time stress; boundary event log checked offline; porcupine for admission"},
            {"name": "obfmon", "path": "harness/obf", "serves_properties": [p for p in ids if p in CHECKS and CHECKS[p][0] == "obf"],
             "kind_free_text": "go test binary (-race) driving the real obfuscation processor; paired structural walk + substitution-table monitor"},
        ],
        "checks": checks,
        "not_applicable": na,
        "notes": "Every check: ./check <id> [quick|thorough] [--seed N] rebuilds the engine from /repo's working tree, runs the workload in journalled child processes, writes evidence/<id>.json; exit 0 held, 1 VIOLATION, 2 inconclusive. Known findings: known_findings.json.",
    }
    json.dump(m, open(os.path.join(VERIF, "MANIFEST.json"), "w"), indent=1)
    print("MANIFEST.json: %d checks, %d not_applicable" % (len(checks), len(na)))


if __name__ == "__main__":
    main()
