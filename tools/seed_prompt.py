#!/usr/bin/env python3
"""tools/seed_prompt.py <Cxx> <worktree> [n] — prints the prompt given to a fresh sub-agent that is asked
for n changes breaking one property. The agent sees only the property text, its scratch worktree and the
one-line titles of changes earlier agents proposed (so as not to repeat them) — nothing else from /verif."""
import sys, json, os
prop, wt = sys.argv[1], sys.argv[2]
n = int(sys.argv[3]) if len(sys.argv) > 3 else 2
root = os.path.dirname(os.path.dirname(os.path.abspath(__file__)))
P = None
for l in open(os.path.join(root, "properties.jsonl")):
    p = json.loads(l)
    if p["id"] == prop: P = p
earlier = []
for d in sorted(os.listdir(os.path.join(root, "seeded"))):
    if d.startswith(prop + "-"):
        earlier.append(d[len(prop) + 1:].replace("-", " "))
mod = {"C05": "collector/processor/concurrentbatchprocessor", "C06": "collector/processor/concurrentbatchprocessor",
       "C09": "collector/processor/concurrentbatchprocessor", "C10": "collector/processor/concurrentbatchprocessor",
       "C11": "collector/processor/concurrentbatchprocessor", "C18": "collector/processor/concurrentbatchprocessor",
       "C17": "collector/processor/obfuscationprocessor"}.get(prop, ".")
print(f"""You are helping test a verification framework by writing *seeded defects* (mutations) for the Go project
open-telemetry/otel-arrow. You have your own scratch git worktree of the repository at {wt} (work ONLY there;
never touch /repo or /verif, do not read /verif). The sandbox is offline: for every shell call use
`export GOFLAGS=-mod=mod GOPROXY=off` (do NOT set GOSUMDB=off, do not set GOTOOLCHAIN). The module relevant here is
`{wt}/{mod}` (run go commands from that module directory; `go test -mod=mod -vet=off -count=1 ./...`).

The property under test (it holds on the current tree):

  {P['id']} — {P.get('title','')}
  {P['statement']}

Files the property is anchored in (relative to the repository root): {', '.join((P.get('anchors') or {}).get('files', [])[:20])}

Your task: produce {n} DIFFERENT, independent changes to the repository's non-test Go code, each of which
  (a) still compiles (`go build ./...` in the module),
  (b) still passes the module's existing test suite unedited (`go test -mod=mod -vet=off -count=1 ./...` in `{wt}/{mod}`;
      for the root module you may restrict to `./pkg/otel/...`), and
  (c) breaks the property above — realistically, the kind of slip a maintainer could make in a refactoring, an
      optimisation or a bug fix (a moved statement, a wrong variable, a boundary condition, a reused buffer, a lost
      reset, a check done in the wrong place, an error dropped, a lock narrowed, ...), NOT sabotage such as
      `if x == 12345` or a random failure.
Each change must need *something specific* to manifest: a particular interleaving, a fault or cancellation at a
particular point, a multi-step sequence of operations / stream history, an unusual input or configuration, or two
cooperating sites that each look fine alone. Ordinary use must not expose it at once (that is why the suite still passes).
Prefer mechanisms and code regions different from each other and from these earlier proposals (titles only; do not repeat them):
{chr(10).join('  - ' + e for e in earlier) or '  (none)'}

For each change i = 1..{n} deliver, in the directory {wt}/../out_{prop}/ (create it):
  - patch{{i}}.diff  : `git diff` of the change alone against the worktree's HEAD (non-test files only; must apply with `git apply` to a clean checkout)
  - demo{{i}}_test.go : a self-contained Go test file (package of the directory it is to be placed in; name the test
                      Test{prop}Seed{{i}}...) that FAILS with the change and PASSES without it. It may use only the module's
                      existing dependencies. For schedule-dependent changes make the demonstration reliable (loops, channels, barriers; `testing/synctest` is available in go1.25+ if the module's toolchain has it — check `go version`).
  - notes{{i}}.md    : 5-15 lines: title (short, kebab-case, e.g. `reset-moved-out-of-retry-loop`), which directory the demo goes in and the
                      exact `go test -run` command, what the change is, why the existing suite does not notice, and exactly what is needed for it to manifest.
Before finishing, verify yourself for each change: clean checkout + patch → build ok, suite passes, demo fails; clean checkout without patch → demo passes.
Never use `git stash` (the stash is shared by all worktrees of the repository; other agents work in sibling worktrees): save a change with `git diff > file`, drop it with `git checkout -- .`, re-apply with `git apply file`.
Leave the worktree clean (`git checkout -- . && git clean -fdq`) at the end. Your final message: for each change one line with title, files touched, and the verification results you observed (be truthful; if you could only produce one valid change, say so).
""")
