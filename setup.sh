#!/bin/bash
# setup_cmd: offline; warms the go1.26 build cache by building every engine once
# (-race -tags verif) against /repo. Checks rebuild on every invocation anyway.
set -u
cd "$(dirname "$0")"
export GOFLAGS=-mod=mod GOPROXY=off GOSUMDB=off GOTOOLCHAIN=local
mkdir -p build evidence replay
rc=0
for e in rt bp obf; do
  [ -d harness/$e ] || continue
  (cd harness/$e && go1.26 test -c -race -tags verif -o ../../build/$e.setup.test . ) || rc=1
  rm -f build/$e.setup.test
done
exit $rc
