package obf

import (
	"bytes"
	"context"
	"fmt"
	"reflect"
	"strings"
	"sync"
	"sync/atomic"
	"testing"

	"go.opentelemetry.io/collector/component/componenttest"
	"go.opentelemetry.io/collector/consumer"
	"go.opentelemetry.io/collector/pdata/pcommon"
	"go.opentelemetry.io/collector/pdata/plog"
	"go.opentelemetry.io/collector/pdata/pmetric"
	"go.opentelemetry.io/collector/pdata/ptrace"
	"go.opentelemetry.io/collector/processor/processortest"

	obfp "github.com/open-telemetry/otel-arrow/collector/processor/obfuscationprocessor"

	"verif/common/gen"
	"verif/common/vc"
)

// ---------------------------------------------------------------- substitution table monitor

// Table accumulates F: original -> substitute over the lifetime of one processor instance.
type Table struct {
	F, G     map[string]string
	Findings []finding
	Pairs    int64
	Changed  int64
	ByLen    map[int]int
	// distinct originals of >= 8 bytes seen in a position that is certainly targeted, and how many of them
	// came out byte-identical (a keyed length-preserving injection fixes a given 8-byte string with
	// probability 2^-64; a processor that forwards what it was configured to obfuscate does it every time)
	Long, LongUnchanged int64
	LongExample         string
}

type finding struct{ sig, detail string }

func NewTable() *Table {
	return &Table{F: map[string]string{}, G: map[string]string{}, ByLen: map[int]int{}}
}

func (t *Table) add(sig, detail string) {
	if len(t.Findings) < 30 {
		t.Findings = append(t.Findings, finding{sig, detail})
	}
}

// Pair records that `orig` was replaced by `sub` at `path`.
func (t *Table) Pair(path, orig, sub string) {
	t.Pairs++
	if orig != sub {
		t.Changed++
	}
	if len(orig) != len(sub) {
		t.add("substitute has a different byte length than the original", fmt.Sprintf("%s: %q (%d bytes) -> %q (%d bytes)", path, orig, len(orig), sub, len(sub)))
	}
	if prev, ok := t.F[orig]; ok {
		if prev != sub {
			t.add("equal originals received different substitutes", fmt.Sprintf("%s: %q -> %q here but -> %q earlier", path, orig, sub, prev))
		}
		return
	}
	t.F[orig] = sub
	t.ByLen[len(orig)]++
	if len(orig) >= 8 {
		t.Long++
		if orig == sub {
			t.LongUnchanged++
			if t.LongExample == "" {
				t.LongExample = fmt.Sprintf("%s: %q", path, orig)
			}
		}
	}
	if o2, ok := t.G[sub]; ok && o2 != orig {
		t.add("different originals received the same substitute", fmt.Sprintf("%s: %q and %q both -> %q", path, orig, o2, sub))
		return
	}
	t.G[sub] = orig
}

// ---------------------------------------------------------------- paired walk

type mode int

const (
	targeted  mode = iota // must be F(original)
	either                // byte-identical or F(original) (nested below a listed key: undocumented)
	untouched             // must be byte-identical
)

type walker struct {
	t                  *Table
	all                bool
	listed             map[string]bool
	struc              []finding
	nAttrs             int64
	nListed, nUnlisted int64
}

func (w *walker) bad(sig, detail string) {
	if len(w.struc) < 30 {
		w.struc = append(w.struc, finding{sig, detail})
	}
}

func (w *walker) str(path string, m mode, in, out string) {
	switch m {
	case targeted:
		w.t.Pair(path, in, out)
	case either:
		if in != out {
			w.t.Pair(path, in, out)
		}
	default:
		if in != out {
			w.bad("non-targeted string value changed", fmt.Sprintf("%s: %q -> %q", path, in, out))
		}
	}
}

type kv struct {
	k string
	v pcommon.Value
}

func entries(m pcommon.Map) []kv {
	var out []kv
	m.Range(func(k string, v pcommon.Value) bool { out = append(out, kv{k, v}); return true })
	return out
}

// attrs walks an attribute map pair. top is true for a top-level attribute map (where the
// encrypt_attributes list applies); m is the mode inherited from an enclosing listed key.
func (w *walker) attrs(path string, in, out pcommon.Map, top bool, inherited mode) {
	a, b := entries(in), entries(out)
	w.nAttrs += int64(len(a))
	if len(a) != len(b) {
		ks := func(e []kv) string {
			var s []string
			for _, x := range e {
				s = append(s, fmt.Sprintf("%q", x.k))
			}
			return strings.Join(s, ",")
		}
		cls := "dropped"
		if len(b) > len(a) {
			cls = "added"
		}
		where := "top-level"
		if !top {
			where = "nested"
		}
		if !w.all && len(b) < len(a) && w.explainedByKeyCollision(a, b, top) {
			w.bad("list mode: obfuscated key collides with an unlisted key of the same map (one attribute overwritten)",
				fmt.Sprintf("%s: %d attributes in, %d out; keys in [%s] out [%s]", path, len(a), len(b), ks(a), ks(b)))
			return
		}
		w.bad(fmt.Sprintf("attributes %s (%s map)", cls, where), fmt.Sprintf("%s: %d attributes in, %d out; keys in [%s] out [%s]", path, len(a), len(b), ks(a), ks(b)))
		return
	}
	for i := range a {
		m := inherited
		if top {
			switch {
			case w.all:
				m = targeted
			case w.listed[a[i].k]:
				m = targeted
				w.nListed++
			default:
				m = untouched
				w.nUnlisted++
			}
		}
		p := fmt.Sprintf("%s[%d:%q]", path, i, a[i].k)
		w.str(p+"/key", m, a[i].k, b[i].k)
		vm := m
		if top && !w.all && m == targeted {
			// the value of a listed key is targeted; what is nested below it may go either way
			w.value(p, a[i].v, b[i].v, targeted, either)
			continue
		}
		w.value(p, a[i].v, b[i].v, vm, vm)
	}
}

// explainedByKeyCollision recognises the one way a correct list-mode rewrite can lose an
// attribute: the substitute of a listed key equals an unlisted key present in the same map, so the
// second Put overwrites the first. Then every unlisted input key is still an output key, the
// other output keys are as many as (listed keys - lost attributes), each with the byte length of
// a distinct listed key, and each lost attribute can be paired with an unlisted key of the same
// length as some listed key.
func (w *walker) explainedByKeyCollision(in, out []kv, top bool) bool {
	outKeys := map[string]bool{}
	for _, e := range out {
		outKeys[e.k] = true
	}
	var listedLens []int
	unl := map[string]bool{}
	for _, e := range in {
		if w.listed[e.k] {
			listedLens = append(listedLens, len(e.k))
		} else {
			unl[e.k] = true
			if !outKeys[e.k] {
				return false // an unlisted attribute really disappeared
			}
		}
	}
	lost := len(in) - len(out)
	var extra []int
	for k := range outKeys {
		if !unl[k] {
			extra = append(extra, len(k))
		}
	}
	if len(extra) != len(listedLens)-lost {
		return false
	}
	// every extra output key must have the length of a distinct listed key
	used := make([]bool, len(listedLens))
	for _, l := range extra {
		ok := false
		for i, ll := range listedLens {
			if !used[i] && ll == l {
				used[i], ok = true, true
				break
			}
		}
		if !ok {
			return false
		}
	}
	// the remaining listed keys (those that collided) need an unlisted key of the same length
	for i, ll := range listedLens {
		if used[i] {
			continue
		}
		ok := false
		for k := range unl {
			if len(k) == ll {
				ok = true
			}
		}
		if !ok {
			return false
		}
	}
	return true
}

// value compares one AnyValue pair: scalar strings/bytes use mode m, anything nested uses nested.
func (w *walker) value(path string, in, out pcommon.Value, m, nested mode) {
	if in.Type() != out.Type() {
		w.bad("attribute value type changed", fmt.Sprintf("%s: %s -> %s", path, in.Type(), out.Type()))
		return
	}
	switch in.Type() {
	case pcommon.ValueTypeStr:
		w.str(path, m, in.Str(), out.Str())
	case pcommon.ValueTypeBytes:
		w.str(path+"(bytes)", m, string(in.Bytes().AsRaw()), string(out.Bytes().AsRaw()))
	case pcommon.ValueTypeSlice:
		a, b := in.Slice(), out.Slice()
		if a.Len() != b.Len() {
			w.bad("list attribute value changed length", fmt.Sprintf("%s: %d -> %d", path, a.Len(), b.Len()))
			return
		}
		for i := 0; i < a.Len(); i++ {
			w.value(fmt.Sprintf("%s[%d]", path, i), a.At(i), b.At(i), nested, nested)
		}
	case pcommon.ValueTypeMap:
		w.attrs(path+"{}", in.Map(), out.Map(), false, nested)
	default:
		if !reflect.DeepEqual(in.AsRaw(), out.AsRaw()) && !(in.Type() == pcommon.ValueTypeDouble && in.Double() != in.Double() && out.Double() != out.Double()) {
			w.bad("numeric / boolean attribute value changed", fmt.Sprintf("%s: %v -> %v", path, in.AsRaw(), out.AsRaw()))
		}
	}
}

func (w *walker) count(path string, a, b int) bool {
	if a != b {
		w.bad("container count changed: "+path[strings.LastIndex(path, "/")+1:], fmt.Sprintf("%s: %d -> %d", path, a, b))
		return false
	}
	return true
}

// nm is the mode of the named trace fields (scope name/version, span name, status message, event
// name): targeted in encrypt_all; in list mode the code's intent is undocumented => either.
func (w *walker) nm() mode {
	if w.all {
		return targeted
	}
	return either
}

func (w *walker) traces(in, out ptrace.Traces) {
	if !w.count("/resourceSpans", in.ResourceSpans().Len(), out.ResourceSpans().Len()) {
		return
	}
	for i := 0; i < in.ResourceSpans().Len(); i++ {
		ri, ro := in.ResourceSpans().At(i), out.ResourceSpans().At(i)
		p := fmt.Sprintf("/resourceSpans[%d]", i)
		w.attrs(p+"/resource/attributes", ri.Resource().Attributes(), ro.Resource().Attributes(), true, untouched)
		if !w.count(p+"/scopeSpans", ri.ScopeSpans().Len(), ro.ScopeSpans().Len()) {
			continue
		}
		for j := 0; j < ri.ScopeSpans().Len(); j++ {
			si, so := ri.ScopeSpans().At(j), ro.ScopeSpans().At(j)
			q := fmt.Sprintf("%s/scopeSpans[%d]", p, j)
			w.attrs(q+"/scope/attributes", si.Scope().Attributes(), so.Scope().Attributes(), true, untouched)
			w.str(q+"/scope/name", w.nm(), si.Scope().Name(), so.Scope().Name())
			w.str(q+"/scope/version", w.nm(), si.Scope().Version(), so.Scope().Version())
			if !w.count(q+"/spans", si.Spans().Len(), so.Spans().Len()) {
				continue
			}
			for k := 0; k < si.Spans().Len(); k++ {
				a, b := si.Spans().At(k), so.Spans().At(k)
				s := fmt.Sprintf("%s/spans[%d]", q, k)
				w.str(s+"/name", w.nm(), a.Name(), b.Name())
				w.str(s+"/status/message", w.nm(), a.Status().Message(), b.Status().Message())
				w.attrs(s+"/attributes", a.Attributes(), b.Attributes(), true, untouched)
				if w.count(s+"/events", a.Events().Len(), b.Events().Len()) {
					for e := 0; e < a.Events().Len(); e++ {
						w.str(fmt.Sprintf("%s/events[%d]/name", s, e), w.nm(), a.Events().At(e).Name(), b.Events().At(e).Name())
						w.attrs(fmt.Sprintf("%s/events[%d]/attributes", s, e), a.Events().At(e).Attributes(), b.Events().At(e).Attributes(), true, untouched)
					}
				}
				if w.count(s+"/links", a.Links().Len(), b.Links().Len()) {
					for e := 0; e < a.Links().Len(); e++ {
						w.attrs(fmt.Sprintf("%s/links[%d]/attributes", s, e), a.Links().At(e).Attributes(), b.Links().At(e).Attributes(), true, untouched)
					}
				}
			}
		}
	}
}

func (w *walker) logs(in, out plog.Logs) {
	if !w.count("/resourceLogs", in.ResourceLogs().Len(), out.ResourceLogs().Len()) {
		return
	}
	for i := 0; i < in.ResourceLogs().Len(); i++ {
		ri, ro := in.ResourceLogs().At(i), out.ResourceLogs().At(i)
		p := fmt.Sprintf("/resourceLogs[%d]", i)
		w.attrs(p+"/resource/attributes", ri.Resource().Attributes(), ro.Resource().Attributes(), true, untouched)
		if !w.count(p+"/scopeLogs", ri.ScopeLogs().Len(), ro.ScopeLogs().Len()) {
			continue
		}
		for j := 0; j < ri.ScopeLogs().Len(); j++ {
			si, so := ri.ScopeLogs().At(j), ro.ScopeLogs().At(j)
			q := fmt.Sprintf("%s/scopeLogs[%d]", p, j)
			w.attrs(q+"/scope/attributes", si.Scope().Attributes(), so.Scope().Attributes(), true, untouched)
			if !w.count(q+"/logRecords", si.LogRecords().Len(), so.LogRecords().Len()) {
				continue
			}
			for k := 0; k < si.LogRecords().Len(); k++ {
				w.attrs(fmt.Sprintf("%s/logRecords[%d]/attributes", q, k), si.LogRecords().At(k).Attributes(), so.LogRecords().At(k).Attributes(), true, untouched)
			}
		}
	}
}

type dpSlice interface {
	Len() int
}

func (w *walker) metrics(in, out pmetric.Metrics) {
	if !w.count("/resourceMetrics", in.ResourceMetrics().Len(), out.ResourceMetrics().Len()) {
		return
	}
	for i := 0; i < in.ResourceMetrics().Len(); i++ {
		ri, ro := in.ResourceMetrics().At(i), out.ResourceMetrics().At(i)
		p := fmt.Sprintf("/resourceMetrics[%d]", i)
		w.attrs(p+"/resource/attributes", ri.Resource().Attributes(), ro.Resource().Attributes(), true, untouched)
		if !w.count(p+"/scopeMetrics", ri.ScopeMetrics().Len(), ro.ScopeMetrics().Len()) {
			continue
		}
		for j := 0; j < ri.ScopeMetrics().Len(); j++ {
			si, so := ri.ScopeMetrics().At(j), ro.ScopeMetrics().At(j)
			q := fmt.Sprintf("%s/scopeMetrics[%d]", p, j)
			w.attrs(q+"/scope/attributes", si.Scope().Attributes(), so.Scope().Attributes(), true, untouched)
			if !w.count(q+"/metrics", si.Metrics().Len(), so.Metrics().Len()) {
				continue
			}
			for k := 0; k < si.Metrics().Len(); k++ {
				a, b := si.Metrics().At(k), so.Metrics().At(k)
				s := fmt.Sprintf("%s/metrics[%d]", q, k)
				if a.Type() != b.Type() {
					w.bad("metric type changed", s)
					continue
				}
				switch a.Type() {
				case pmetric.MetricTypeGauge:
					x, y := a.Gauge().DataPoints(), b.Gauge().DataPoints()
					if w.count(s+"/dataPoints", x.Len(), y.Len()) {
						for d := 0; d < x.Len(); d++ {
							w.attrs(fmt.Sprintf("%s/gauge/dataPoints[%d]/attributes", s, d), x.At(d).Attributes(), y.At(d).Attributes(), true, untouched)
						}
					}
				case pmetric.MetricTypeSum:
					x, y := a.Sum().DataPoints(), b.Sum().DataPoints()
					if w.count(s+"/dataPoints", x.Len(), y.Len()) {
						for d := 0; d < x.Len(); d++ {
							w.attrs(fmt.Sprintf("%s/sum/dataPoints[%d]/attributes", s, d), x.At(d).Attributes(), y.At(d).Attributes(), true, untouched)
						}
					}
				case pmetric.MetricTypeHistogram:
					x, y := a.Histogram().DataPoints(), b.Histogram().DataPoints()
					if w.count(s+"/dataPoints", x.Len(), y.Len()) {
						for d := 0; d < x.Len(); d++ {
							w.attrs(fmt.Sprintf("%s/histogram/dataPoints[%d]/attributes", s, d), x.At(d).Attributes(), y.At(d).Attributes(), true, untouched)
						}
					}
				case pmetric.MetricTypeExponentialHistogram:
					x, y := a.ExponentialHistogram().DataPoints(), b.ExponentialHistogram().DataPoints()
					if w.count(s+"/dataPoints", x.Len(), y.Len()) {
						for d := 0; d < x.Len(); d++ {
							w.attrs(fmt.Sprintf("%s/exponentialHistogram/dataPoints[%d]/attributes", s, d), x.At(d).Attributes(), y.At(d).Attributes(), true, untouched)
						}
					}
				case pmetric.MetricTypeSummary:
					x, y := a.Summary().DataPoints(), b.Summary().DataPoints()
					if w.count(s+"/dataPoints", x.Len(), y.Len()) {
						for d := 0; d < x.Len(); d++ {
							w.attrs(fmt.Sprintf("%s/summary/dataPoints[%d]/attributes", s, d), x.At(d).Attributes(), y.At(d).Attributes(), true, untouched)
						}
					}
				}
			}
		}
	}
}

// ---------------------------------------------------------------- blank-and-compare (everything that is not an attribute map or a named trace string)

func blankTraces(td ptrace.Traces) []byte {
	c := ptrace.NewTraces()
	td.CopyTo(c)
	for i := 0; i < c.ResourceSpans().Len(); i++ {
		rs := c.ResourceSpans().At(i)
		rs.Resource().Attributes().Clear()
		for j := 0; j < rs.ScopeSpans().Len(); j++ {
			ss := rs.ScopeSpans().At(j)
			ss.Scope().Attributes().Clear()
			ss.Scope().SetName("")
			ss.Scope().SetVersion("")
			for k := 0; k < ss.Spans().Len(); k++ {
				sp := ss.Spans().At(k)
				sp.SetName("")
				sp.Status().SetMessage("")
				sp.Attributes().Clear()
				for e := 0; e < sp.Events().Len(); e++ {
					sp.Events().At(e).SetName("")
					sp.Events().At(e).Attributes().Clear()
				}
				for e := 0; e < sp.Links().Len(); e++ {
					sp.Links().At(e).Attributes().Clear()
				}
			}
		}
	}
	b, _ := (&ptrace.ProtoMarshaler{}).MarshalTraces(c)
	return b
}

func blankLogs(ld plog.Logs) []byte {
	c := plog.NewLogs()
	ld.CopyTo(c)
	for i := 0; i < c.ResourceLogs().Len(); i++ {
		rl := c.ResourceLogs().At(i)
		rl.Resource().Attributes().Clear()
		for j := 0; j < rl.ScopeLogs().Len(); j++ {
			sl := rl.ScopeLogs().At(j)
			sl.Scope().Attributes().Clear()
			for k := 0; k < sl.LogRecords().Len(); k++ {
				sl.LogRecords().At(k).Attributes().Clear()
			}
		}
	}
	b, _ := (&plog.ProtoMarshaler{}).MarshalLogs(c)
	return b
}

func blankMetrics(md pmetric.Metrics) []byte {
	c := pmetric.NewMetrics()
	md.CopyTo(c)
	for i := 0; i < c.ResourceMetrics().Len(); i++ {
		rm := c.ResourceMetrics().At(i)
		rm.Resource().Attributes().Clear()
		for j := 0; j < rm.ScopeMetrics().Len(); j++ {
			sm := rm.ScopeMetrics().At(j)
			sm.Scope().Attributes().Clear()
			for k := 0; k < sm.Metrics().Len(); k++ {
				m := sm.Metrics().At(k)
				switch m.Type() {
				case pmetric.MetricTypeGauge:
					for d := 0; d < m.Gauge().DataPoints().Len(); d++ {
						m.Gauge().DataPoints().At(d).Attributes().Clear()
					}
				case pmetric.MetricTypeSum:
					for d := 0; d < m.Sum().DataPoints().Len(); d++ {
						m.Sum().DataPoints().At(d).Attributes().Clear()
					}
				case pmetric.MetricTypeHistogram:
					for d := 0; d < m.Histogram().DataPoints().Len(); d++ {
						m.Histogram().DataPoints().At(d).Attributes().Clear()
					}
				case pmetric.MetricTypeExponentialHistogram:
					for d := 0; d < m.ExponentialHistogram().DataPoints().Len(); d++ {
						m.ExponentialHistogram().DataPoints().At(d).Attributes().Clear()
					}
				case pmetric.MetricTypeSummary:
					for d := 0; d < m.Summary().DataPoints().Len(); d++ {
						m.Summary().DataPoints().At(d).Attributes().Clear()
					}
				}
			}
		}
	}
	b, _ := (&pmetric.ProtoMarshaler{}).MarshalMetrics(c)
	return b
}

// ---------------------------------------------------------------- processor under test

// collector receives the output of ONE call through the call's context (the instance's sink is
// shared by concurrent calls).
type collectorKey struct{}

type collector struct {
	out []byte
}

func newCollector(*instance) *collector { return &collector{} }
func (c *collector) ctx() context.Context {
	return context.WithValue(context.Background(), collectorKey{}, c)
}
func (c *collector) take() []byte { return c.out }

type sinkT struct{ got []ptrace.Traces }

func (s *sinkT) Capabilities() consumer.Capabilities { return consumer.Capabilities{} }
func (s *sinkT) ConsumeTraces(ctx context.Context, td ptrace.Traces) error {
	if c, ok := ctx.Value(collectorKey{}).(*collector); ok {
		c.out, _ = (&ptrace.ProtoMarshaler{}).MarshalTraces(td)
		return nil
	}
	s.got = append(s.got, td)
	return nil
}

type sinkL struct{ got []plog.Logs }

func (s *sinkL) Capabilities() consumer.Capabilities { return consumer.Capabilities{} }
func (s *sinkL) ConsumeLogs(ctx context.Context, ld plog.Logs) error {
	if c, ok := ctx.Value(collectorKey{}).(*collector); ok {
		c.out, _ = (&plog.ProtoMarshaler{}).MarshalLogs(ld)
		return nil
	}
	s.got = append(s.got, ld)
	return nil
}

type sinkM struct{ got []pmetric.Metrics }

func (s *sinkM) Capabilities() consumer.Capabilities { return consumer.Capabilities{} }
func (s *sinkM) ConsumeMetrics(ctx context.Context, md pmetric.Metrics) error {
	if c, ok := ctx.Value(collectorKey{}).(*collector); ok {
		c.out, _ = (&pmetric.ProtoMarshaler{}).MarshalMetrics(md)
		return nil
	}
	s.got = append(s.got, md)
	return nil
}

// instance is one processor instance with its substitution table (lifetime = the case).
type instance struct {
	sig    int
	all    bool
	listed map[string]bool
	keyLen int
	table  *Table
	tp     interface {
		ConsumeTraces(context.Context, ptrace.Traces) error
	}
	lp interface {
		ConsumeLogs(context.Context, plog.Logs) error
	}
	mp interface {
		ConsumeMetrics(context.Context, pmetric.Metrics) error
	}
	st *sinkT
	sl *sinkL
	sm *sinkM
}

// leaveEncryptAllDefault: in list mode, leave encrypt_all at its default (true) as a configuration file that only
// names encrypt_attributes does; a non-empty list takes precedence over encrypt_all (factory.go, makeEncryptList).
var leaveEncryptAllDefault atomic.Bool

// keyLengthOverride: 0 = the default key_length; set around newInstance by layers that vary it.
var keyLengthOverride atomic.Int64

func newInstance(sig int, all bool, list []string) (*instance, error) {
	f := obfp.NewFactory()
	cfg := f.CreateDefaultConfig().(*obfp.Config)
	if !(len(list) > 0 && leaveEncryptAllDefault.Load()) {
		cfg.EncryptAll = all
	}
	cfg.EncryptAttributes = list
	// key_length is configuration too: short keys are valid (the default is 128)
	if kl := keyLengthOverride.Load(); kl > 0 {
		cfg.KeyLength = int(kl)
	}
	set := processortest.NewNopSettings(f.Type())
	in := &instance{sig: sig, all: all && len(list) == 0, listed: map[string]bool{}, table: NewTable(), keyLen: cfg.KeyLength}
	for _, k := range list {
		in.listed[k] = true
	}
	ctx := context.Background()
	host := componenttest.NewNopHost()
	switch sig {
	case 0:
		in.st = &sinkT{}
		p, err := f.CreateTraces(ctx, set, cfg, in.st)
		if err != nil {
			return nil, err
		}
		if err := p.Start(ctx, host); err != nil {
			return nil, err
		}
		in.tp = p
	case 1:
		in.sl = &sinkL{}
		p, err := f.CreateLogs(ctx, set, cfg, in.sl)
		if err != nil {
			return nil, err
		}
		if err := p.Start(ctx, host); err != nil {
			return nil, err
		}
		in.lp = p
	default:
		in.sm = &sinkM{}
		p, err := f.CreateMetrics(ctx, set, cfg, in.sm)
		if err != nil {
			return nil, err
		}
		if err := p.Start(ctx, host); err != nil {
			return nil, err
		}
		in.mp = p
	}
	return in, nil
}

// process sends one document through the processor and runs the monitors on it.
// flipCtx is a request context whose Err() turns into context.Canceled after `after` calls (a caller
// that gives up while the processor is half-way through the document).
type flipCtx struct {
	context.Context
	n     atomic.Int64
	after int64
	once  sync.Once
	done  chan struct{}
}

func (f *flipCtx) Err() error {
	if f.n.Add(1) > f.after {
		f.once.Do(func() { close(f.done) })
		return context.Canceled
	}
	return nil
}
func (f *flipCtx) Done() <-chan struct{} { return f.done }

// hostileCtx: every fourth document is submitted under a context that is already cancelled, every
// fourth under one that is cancelled part-way. Whatever a processor does with such a context, what it
// forwards must be obfuscated like everything else (refusing with an error and forwarding nothing is fine).
func hostileCtx(doc int) (context.Context, string) {
	switch doc % 4 {
	case 1:
		ctx, cancel := context.WithCancel(context.Background())
		cancel()
		return ctx, "cancelled-before-call"
	case 3:
		return &flipCtx{Context: context.Background(), after: int64(1 + doc%7), done: make(chan struct{})}, "cancelled-part-way"
	}
	return context.Background(), "live"
}

func (in *instance) process(c *vc.Case, g *gen.G, n int, doc int) {
	w := &walker{t: in.table, all: in.all, listed: in.listed}
	var pan any
	var blankIn, blankOut []byte
	var inJSON string
	ctx, ctxKind := hostileCtx(doc + c.Idx)
	c.Count("documents_under_context_"+ctxKind, 1)
	func() {
		defer func() { pan = recover() }()
		switch in.sig {
		case 0:
			td := g.Traces(n)
			orig := ptrace.NewTraces()
			td.CopyTo(orig)
			j, _ := (&ptrace.JSONMarshaler{}).MarshalTraces(orig)
			inJSON = string(j)
			in.st.got = nil
			if err := in.tp.ConsumeTraces(ctx, td); err != nil {
				if ctxKind != "live" && len(in.st.got) == 0 {
					c.Count("documents_refused_under_a_done_context", 1)
					return
				}
				w.bad("processor returned an error", err.Error())
				return
			}
			if len(in.st.got) != 1 {
				w.bad("next consumer was not called exactly once", fmt.Sprint(len(in.st.got)))
				return
			}
			w.traces(orig, in.st.got[0])
			blankIn, blankOut = blankTraces(orig), blankTraces(in.st.got[0])
		case 1:
			ld := g.Logs(n)
			orig := plog.NewLogs()
			ld.CopyTo(orig)
			j, _ := (&plog.JSONMarshaler{}).MarshalLogs(orig)
			inJSON = string(j)
			in.sl.got = nil
			if err := in.lp.ConsumeLogs(ctx, ld); err != nil {
				if ctxKind != "live" && len(in.sl.got) == 0 {
					c.Count("documents_refused_under_a_done_context", 1)
					return
				}
				w.bad("processor returned an error", err.Error())
				return
			}
			if len(in.sl.got) != 1 {
				w.bad("next consumer was not called exactly once", fmt.Sprint(len(in.sl.got)))
				return
			}
			w.logs(orig, in.sl.got[0])
			blankIn, blankOut = blankLogs(orig), blankLogs(in.sl.got[0])
		default:
			md := g.Metrics(n, nil)
			orig := pmetric.NewMetrics()
			md.CopyTo(orig)
			j, _ := (&pmetric.JSONMarshaler{}).MarshalMetrics(orig)
			inJSON = string(j)
			in.sm.got = nil
			if err := in.mp.ConsumeMetrics(ctx, md); err != nil {
				if ctxKind != "live" && len(in.sm.got) == 0 {
					c.Count("documents_refused_under_a_done_context", 1)
					return
				}
				w.bad("processor returned an error", err.Error())
				return
			}
			if len(in.sm.got) != 1 {
				w.bad("next consumer was not called exactly once", fmt.Sprint(len(in.sm.got)))
				return
			}
			w.metrics(orig, in.sm.got[0])
			blankIn, blankOut = blankMetrics(orig), blankMetrics(in.sm.got[0])
		}
	}()
	wit := map[string]any{"document_index": doc, "request_context": ctxKind, "mode_encrypt_all": in.all, "listed_keys": fmt.Sprint(keysOf(in.listed)), "input_otlp_json": clip(inJSON, 20000)}
	if pan != nil {
		c.Violation("obfuscation processor panicked", fmt.Sprint(pan), wit)
		return
	}
	if !bytes.Equal(blankIn, blankOut) {
		w.bad("a field outside attribute maps and targeted names changed (or containers were reordered)", "protobuf of the document with attribute maps and targeted names blanked differs between input and output")
	}
	for _, f := range w.struc {
		c.Violation(f.sig, f.detail, wit)
	}
	c.Count("documents", 1)
	c.Count("attributes_walked", w.nAttrs)
	c.Count("listed_attributes_present", w.nListed)
	c.Count("unlisted_attributes_present", w.nUnlisted)
}

func keysOf(m map[string]bool) []string {
	var out []string
	for k := range m {
		out = append(out, k)
	}
	return out
}

func clip(s string, n int) string {
	if len(s) > n {
		return s[:n] + "…"
	}
	return s
}

func (in *instance) finish(c *vc.Case) {
	for _, f := range in.table.Findings {
		c.Violation(f.sig, f.detail, map[string]any{"mode_encrypt_all": in.all, "listed_keys": fmt.Sprint(keysOf(in.listed))})
	}
	c.Count("substitution_pairs_observed", in.table.Pairs)
	c.Count("substitutions_that_changed_the_string", in.table.Changed)
	c.Count("distinct_originals", int64(len(in.table.F)))
	c.Count("distinct_targeted_originals_of_8+_bytes", in.table.Long)
	c.Count("distinct_targeted_originals_of_8+_bytes_forwarded_unchanged", in.table.LongUnchanged)
	if in.table.LongUnchanged > 0 {
		// "replaced by a substitute": a keyed length-preserving injection leaves a given string of 8 or more
		// bytes unchanged with probability 2^-64 (0 of 7,700 per quick run on the unchanged tree)
		c.Violation("string the processor is configured to obfuscate was forwarded unchanged",
			fmt.Sprintf("%d of %d distinct targeted originals of 8 or more bytes came out byte-identical; first: %s (key_length=%d)", in.table.LongUnchanged, in.table.Long, in.table.LongExample, in.keyLen),
			map[string]any{"mode_encrypt_all": in.all, "listed_keys": fmt.Sprint(keysOf(in.listed)), "key_length": in.keyLen})
	}
	for l, n := range in.table.ByLen {
		if l <= 2 {
			c.Max(fmt.Sprintf("max_distinct_originals_of_length_%d_in_one_instance", l), int64(n))
		}
		c.Max("max_original_length", int64(l))
	}
}

func TestC17(t *testing.T) {
	r := vc.NewRunner(t, "C17")
	defer r.Close()
	r.Meta(vc.Meta{
		Level:       "exploration",
		Rule:        "case = one processor instance (its own random key) fed a sequence of hostile documents (attributes of every value type incl. nested lists/maps up to 16 deep, empty / one-byte / odd- and even-length / non-ASCII / invalid-UTF-8 strings, duplicates across positions and documents) in one of the modes {encrypt_all, encrypt_attributes with listed AND unlisted keys present, listed keys holding nested maps/lists} for traces, logs or metrics (all metric kinds). Oracle: paired walk of (deep copy of the input, what the next consumer received): same number and order of resources/scopes/records/events/links, same number of attributes in every map at every depth, same value type at every position, numeric/bool and every non-targeted value byte-identical (a protobuf comparison of both documents with attribute maps and targeted names blanked covers every other field); for targeted strings a table F per processor instance, accumulated over the whole case, must be a function, injective and byte-length preserving. Layer 'onebyte' presents all 256 one-byte strings (exhaustive), layer 'twobyte' (thorough) all 65,536 two-byte strings. Non-trivial = case whose table holds >=2 distinct originals that were changed. Distinct = (signal, mode, listed keys, #distinct originals bucket).",
		Assumptions: []string{"which strings are targeted follows the code's behaviour in encrypt_all (attribute keys, string/bytes attribute values at any depth, for traces also scope name/version, span name, status message, event name); in list mode only attributes whose key is listed; for strings nested below a listed key and for the named trace fields in list mode the intent is undocumented, so byte-identical OR F(original) is accepted there", "identity substitutes are allowed (a permutation may have fixed points); 'really encrypted' is decided by consistency of F across positions"},
		Gates: map[string]map[string]int{
			"quick":    {"documents": 2500, "substitution_pairs_observed": 20000, "max_distinct_originals_of_length_1_in_one_instance": 256, "unlisted_attributes_present": 500, "listed_attributes_present": 500},
			"thorough": {"documents": 25000, "substitution_pairs_observed": 400000, "max_distinct_originals_of_length_1_in_one_instance": 256, "max_distinct_originals_of_length_2_in_one_instance": 65536, "unlisted_attributes_present": 10000, "listed_attributes_present": 10000},
		},
		ExhaustiveLayers: []string{"onebyte (all 256 one-byte strings)", "twobyte (thorough: all 65,536 two-byte strings)"},
		RaceIsViolation:  true,
	})
	e := r.Env
	r.Layer("docs", e.Pick(900, 9000), func(c *vc.Case) {
		sig := c.Idx % 3
		modeIdx := (c.Idx / 3) % 3 // 0 encrypt_all, 1 list (listed+unlisted), 2 list with nested values under listed keys
		g := gen.New(c.R, gen.DAny)
		g.MaxDepth = 2 + c.R.IntN(3)
		var list []string
		if modeIdx > 0 {
			pool := g.KeyPool()
			for _, k := range pool {
				if c.R.IntN(2) == 0 && k != "" {
					list = append(list, k)
				}
			}
			if len(list) == 0 {
				list = []string{"never-present"}
			}
		}
		// every other list-mode instance is configured the way a file naming only encrypt_attributes is:
		// encrypt_all stays at its default (true) and the list takes precedence
		leaveEncryptAllDefault.Store(modeIdx > 0 && (c.Idx/9)%2 == 0)
		// a third of the instances run with a short key (key_length 1, 2, 3 or 16 instead of 128)
		if c.Idx%3 == 1 {
			keyLengthOverride.Store([]int64{1, 2, 3, 16}[(c.Idx/3)%4])
			c.Count("instances_with_a_short_key", 1)
		}
		in, err := newInstance(sig, modeIdx == 0, list)
		leaveEncryptAllDefault.Store(false)
		keyLengthOverride.Store(0)
		if modeIdx > 0 && (c.Idx/9)%2 == 0 {
			c.Count("list_mode_instances_with_encrypt_all_left_at_default", 1)
		}
		if err != nil {
			c.Inconclusive(err.Error())
			return
		}
		nd := 3
		for d := 0; d < nd; d++ {
			g.ZeroBias = []float64{0.1, 0.4, 0.7}[c.R.IntN(3)]
			in.process(c, g, 2+c.R.IntN(8), d)
		}
		in.finish(c)
		c.FP(fmt.Sprint(sig), fmt.Sprint(modeIdx), fmt.Sprint(list), fmt.Sprint(len(in.table.F)/8))
		c.Nontrivial(in.table.Changed >= 2)
		if c.Idx < 30 {
			c.Sample(map[string]any{"signal": []string{"traces", "logs", "metrics"}[sig], "mode": []string{"encrypt_all", "list", "list+nested"}[modeIdx], "listed_keys": list,
				"documents": nd, "distinct_originals": len(in.table.F), "pairs": in.table.Pairs})
		}
	})
	// exhaustive short-string classes through one instance each
	r.Layer("onebyte", 6, func(c *vc.Case) {
		sig := c.Idx % 3
		in, err := newInstance(sig, true, nil)
		if err != nil {
			c.Inconclusive(err.Error())
			return
		}
		feedClass(c, in, 1)
		in.finish(c)
		c.FP("onebyte", fmt.Sprint(c.Idx))
		c.Nontrivial(true)
		c.Sample(map[string]any{"layer": "onebyte", "distinct_originals": len(in.table.F)})
	})
	if e.Thorough() {
		r.Layer("twobyte", 3, func(c *vc.Case) {
			in, err := newInstance(c.Idx%3, true, nil)
			if err != nil {
				c.Inconclusive(err.Error())
				return
			}
			feedClass(c, in, 2)
			in.finish(c)
			c.FP("twobyte", fmt.Sprint(c.Idx))
			c.Nontrivial(true)
		})
	}
	// one instance used from several goroutines at once (a collector pipeline does that): every
	// document must come out byte-identical to what the SAME instance produced for it sequentially
	// ("depends only on the original ... for the lifetime of the processor instance"), and the race
	// detector must stay silent on repository frames
	r.Layer("concurrent", e.Pick(12, 120), func(c *vc.Case) {
		sig := c.Idx % 3
		g := gen.New(c.R, gen.DAny)
		mode := (c.Idx / 3) % 2
		var list []string
		if mode == 1 {
			for _, k := range g.KeyPool() {
				if c.R.IntN(2) == 0 && k != "" {
					list = append(list, k)
				}
			}
			if len(list) == 0 {
				list = []string{"never-present"}
			}
		}
		const nDocs, nG, reps = 12, 8, 6
		type doc struct {
			t ptrace.Traces
			l plog.Logs
			m pmetric.Metrics
		}
		docs := make([]doc, nDocs)
		for i := range docs {
			g.ZeroBias = 0.3
			switch sig {
			case 0:
				docs[i].t = g.Traces(6)
			case 1:
				docs[i].l = g.Logs(6)
			default:
				docs[i].m = g.Metrics(6, nil)
			}
		}
		// odd cases: FIRST USE of fresh instances is concurrent (nothing initialised by an earlier sequential
		// call); the instance's sequential output is computed afterwards and every concurrent output must equal
		// it (the substitute depends only on the original for the lifetime of the instance). Several fresh
		// instances per case. Even cases: sequential pass first, then the concurrent one.
		firstUse := c.Idx%2 == 1
		instances := 1
		if firstUse {
			instances = 8
		}
		for inst := 0; inst < instances; inst++ {
			in, err := newInstance(sig, mode == 0, list)
			if err != nil {
				c.Inconclusive(err.Error())
				return
			}
			run := func(d doc, sk *collector) []byte {
				switch sig {
				case 0:
					cp := ptrace.NewTraces()
					d.t.CopyTo(cp)
					_ = in.tp.ConsumeTraces(sk.ctx(), cp)
				case 1:
					cp := plog.NewLogs()
					d.l.CopyTo(cp)
					_ = in.lp.ConsumeLogs(sk.ctx(), cp)
				default:
					cp := pmetric.NewMetrics()
					d.m.CopyTo(cp)
					_ = in.mp.ConsumeMetrics(sk.ctx(), cp)
				}
				return sk.take()
			}
			// the instance's sinks are shared; results are routed back through the context
			seq := make([][]byte, nDocs)
			if !firstUse {
				for i := range docs {
					seq[i] = run(docs[i], newCollector(in))
				}
			}
			outs := make([][][]byte, nG)
			var wg sync.WaitGroup
			start := make(chan struct{})
			for gi := 0; gi < nG; gi++ {
				wg.Add(1)
				go func(gi int) {
					defer wg.Done()
					<-start
					for rep := 0; rep < reps; rep++ {
						for i := range docs {
							k := (i + gi) % nDocs
							outs[gi] = append(outs[gi], run(docs[k], newCollector(in)))
						}
					}
				}(gi)
			}
			close(start)
			wg.Wait()
			if firstUse {
				for i := range docs {
					seq[i] = run(docs[i], newCollector(in))
				}
				c.Count("fresh_instances_whose_first_use_was_concurrent", 1)
			}
			diffs, first := 0, ""
			for gi := 0; gi < nG; gi++ {
				j := 0
				for rep := 0; rep < reps; rep++ {
					for i := range docs {
						k := (i + gi) % nDocs
						if out := outs[gi][j]; !bytes.Equal(out, seq[k]) {
							diffs++
							if first == "" {
								first = fmt.Sprintf("goroutine %d document %d: %d bytes vs %d bytes sequentially", gi, k, len(out), len(seq[k]))
							}
						}
						j++
					}
				}
			}
			c.Count("concurrent_calls_compared_with_sequential_output", int64(nG*reps*nDocs))
			if diffs > 0 {
				c.Violation("output for a document differs when the same instance is used concurrently (substitute depends on scheduling)",
					fmt.Sprintf("%d of %d concurrent calls differ from the instance's own sequential output (first use concurrent: %v); first: %v", diffs, nG*reps*nDocs, firstUse, first), map[string]any{"mode_encrypt_all": mode == 0, "listed_keys": fmt.Sprint(list), "first_use_concurrent": firstUse})
			}
		}
		c.FP("concurrent", fmt.Sprint(sig), fmt.Sprint(mode), fmt.Sprint(c.Idx))
		c.Nontrivial(true)
	})
	// deterministic witness of the open known finding D16 (substitute key collides with an unlisted key)
	r.Layer("collision-witness", 3, func(c *vc.Case) {
		in, err := newInstance(c.Idx%3, false, []string{"a", "b"})
		if err != nil {
			c.Inconclusive(err.Error())
			return
		}
		m := pcommon.NewMap()
		for i := 0; i < 256; i++ {
			m.PutInt(string([]byte{byte(i)}), int64(i))
		}
		in.feedMap(c, m, 0)
		in.finish(c)
		c.FP("collision-witness", fmt.Sprint(c.Idx))
		c.Nontrivial(true)
	})
	// length sweep: every length 0..300, several strings per length, as values, keys, bytes, nested
	r.Layer("lengths", e.Pick(6, 60), func(c *vc.Case) {
		sig := c.Idx % 3
		in, err := newInstance(sig, true, nil)
		if err != nil {
			c.Inconclusive(err.Error())
			return
		}
		for l := 0; l <= 300; l += 1 {
			doc := ptrace.NewTraces()
			_ = doc
			m := pcommon.NewMap()
			for k := 0; k < 4; k++ {
				b := make([]byte, l)
				for i := range b {
					b[i] = byte(c.R.IntN(256))
				}
				m.PutStr(fmt.Sprintf("s%d", k), string(b))
				m.PutEmptyBytes(fmt.Sprintf("b%d", k)).FromRaw(b)
				m.PutEmptySlice(fmt.Sprintf("l%d", k)).AppendEmpty().SetStr(string(b))
			}
			in.feedMap(c, m, l)
		}
		in.finish(c)
		c.FP("lengths", fmt.Sprint(c.Idx))
		c.Nontrivial(true)
	})
}

// feedMap sends one document whose single item carries the given attributes.
func (in *instance) feedMap(c *vc.Case, m pcommon.Map, doc int) {
	w := &walker{t: in.table, all: in.all, listed: in.listed}
	var pan any
	func() {
		defer func() { pan = recover() }()
		switch in.sig {
		case 0:
			td := ptrace.NewTraces()
			m.CopyTo(td.ResourceSpans().AppendEmpty().ScopeSpans().AppendEmpty().Spans().AppendEmpty().Attributes())
			orig := ptrace.NewTraces()
			td.CopyTo(orig)
			in.st.got = nil
			_ = in.tp.ConsumeTraces(context.Background(), td)
			if len(in.st.got) == 1 {
				w.traces(orig, in.st.got[0])
			}
		case 1:
			ld := plog.NewLogs()
			m.CopyTo(ld.ResourceLogs().AppendEmpty().ScopeLogs().AppendEmpty().LogRecords().AppendEmpty().Attributes())
			orig := plog.NewLogs()
			ld.CopyTo(orig)
			in.sl.got = nil
			_ = in.lp.ConsumeLogs(context.Background(), ld)
			if len(in.sl.got) == 1 {
				w.logs(orig, in.sl.got[0])
			}
		default:
			md := pmetric.NewMetrics()
			m.CopyTo(md.ResourceMetrics().AppendEmpty().ScopeMetrics().AppendEmpty().Metrics().AppendEmpty().SetEmptyGauge().DataPoints().AppendEmpty().Attributes())
			orig := pmetric.NewMetrics()
			md.CopyTo(orig)
			in.sm.got = nil
			_ = in.mp.ConsumeMetrics(context.Background(), md)
			if len(in.sm.got) == 1 {
				w.metrics(orig, in.sm.got[0])
			}
		}
	}()
	if pan != nil {
		c.Violation("obfuscation processor panicked", fmt.Sprint(pan), map[string]any{"document_index": doc})
	}
	for _, f := range w.struc {
		c.Violation(f.sig, f.detail, map[string]any{"document_index": doc})
	}
	c.Count("documents", 1)
	c.Count("attributes_walked", w.nAttrs)
}

// feedClass presents every string of the given byte length (1 or 2) as attribute values.
func feedClass(c *vc.Case, in *instance, n int) {
	total := 256
	if n == 2 {
		total = 65536
	}
	for base := 0; base < total; base += 256 {
		m := pcommon.NewMap()
		for i := 0; i < 256; i++ {
			v := base + i
			var s string
			if n == 1 {
				s = string([]byte{byte(v)})
			} else {
				s = string([]byte{byte(v >> 8), byte(v)})
			}
			m.PutStr(fmt.Sprintf("k%05d", v), s)
		}
		in.feedMap(c, m, base/256)
	}
}
