package rt

import (
	"fmt"

	colarspb "github.com/open-telemetry/otel-arrow/api/experimental/arrow/v1"
	"github.com/open-telemetry/otel-arrow/pkg/otel/arrow_record"

	"sort"
	"strings"
	"testing"

	"go.opentelemetry.io/collector/pdata/pcommon"
	"go.opentelemetry.io/collector/pdata/plog"
	"go.opentelemetry.io/collector/pdata/pmetric"
	"go.opentelemetry.io/collector/pdata/ptrace"

	"verif/common/canon"
	"verif/common/gen"
	"verif/common/vc"
)

func clip(s string, n int) string {
	if len(s) > n {
		return s[:n] + "…"
	}
	return s
}

// witness is what a replay file shows a human; the case itself is re-generated from
// (seed, property, layer, idx) by `./check Cxx --replay file`.
func witness(h *History, k int, o OptSet, extra map[string]any) map[string]any {
	w := map[string]any{"script": h.Script, "batches_in_history": h.Len(), "failing_batch_index": k, "producer_options": o.String()}
	if h.Has(k) {
		w["failing_batch_otlp_json"] = clip(h.At(k).JSON(), 30000)
	}
	for kk, v := range extra {
		w[kk] = v
	}
	return w
}

// roundTripHistory sends h through one stream and compares every decoded batch with what
// was encoded. Returns the stream (already closed) for further inspection.
func roundTripHistory(c *vc.Case, h *History, o OptSet, prop string, copts ...arrow_record.Option) *Stream {
	s := NewStream(o, copts...)
	containers := 0
	// How far the producer runs ahead of the consumer: 0 = lock step, 1 = one batch ahead,
	// 1<<30 = the whole history is encoded before anything is decoded. A returned
	// BatchArrowRecords must stay valid while later batches are encoded (it is NOT cloned here).
	ahead := []int{0, 0, 1, 1 << 30}[c.R.IntN(4)]
	c.Seen("producer_lead_modes", fmt.Sprint(min(ahead, 2)))
	type pending struct {
		k    int
		sig  canon.Signal
		want *canon.Set
		bar  *colarspb.BatchArrowRecords
	}
	var queue []pending
	dead := false
	decode := func(p pending) bool {
		got, _, err, pi := s.Decode(p.sig, p.bar)
		lead := fmt.Sprintf(" (producer lead %d)", min(ahead, 2))
		if ahead == 0 {
			lead = ""
		}
		if pi != nil {
			c.ViolationFor(prop, "consumer "+pi.Signature()+lead, pi.Value+"\n"+clip(pi.Stack, 3000), witness(h, p.k, o, map[string]any{"producer_lead": ahead}))
			return false
		}
		if err != nil {
			c.ViolationFor(prop, "consumer error on well-formed batch"+lead+": "+clip(stripNums(err.Error()), 100), err.Error(), witness(h, p.k, o, map[string]any{"producer_lead": ahead}))
			return false
		}
		if d := canon.Compare(p.want, got); d != nil {
			reportDiff(c, prop, d, witness(h, p.k, o, map[string]any{"diffs": d.Concrete, "producer_lead": ahead}))
			c.Count("mismatching_batches", 1)
		}
		return true
	}
	if h.Gen != nil && ahead > 1 {
		ahead = 1 // lazy (large) histories keep at most two batches alive
	}
	for k := 0; k < h.Len(); k++ {
		b := h.At(k)
		want, err := b.Canon()
		if err != nil {
			c.Inconclusive("canon(input): " + err.Error())
			break
		}
		res := map[string]bool{}
		for _, it := range want.Items {
			m := it.Tree.(map[string]any)
			res[fmt.Sprint(m["R"], m["S"])] = true
		}
		if len(res) > containers {
			containers = len(res)
		}
		bar, err, pi := s.Encode(b)
		c.Count("batches", 1)
		c.Count("items", int64(len(want.Items)))
		if pi != nil {
			c.ViolationFor(prop, "producer "+pi.Signature(), pi.Value+"\n"+clip(pi.Stack, 3000), witness(h, k, o, nil))
			dead = true // producer state is undefined after a panic
			break
		}
		if err != nil {
			c.ViolationFor(prop, "producer error on valid input: "+clip(stripNums(err.Error()), 100), err.Error(), witness(h, k, o, nil))
			dead = true
			break
		}
		queue = append(queue, pending{k, b.Sig, want, bar})
		h.Forget(k - 1) // the input itself is only needed for a witness; keep the current one
		for len(queue) > ahead {
			ok := decode(queue[0])
			queue = queue[1:]
			if !ok {
				dead = true
				break
			}
		}
		if dead {
			break
		}
	}
	for !dead && len(queue) > 0 {
		if !decode(queue[0]) {
			break
		}
		queue = queue[1:]
	}
	s.Close()
	// shape fingerprint and observations
	fields := make([]string, 0, len(s.Obs.Fields))
	for f := range s.Obs.Fields {
		fields = append(fields, f)
	}
	sort.Strings(fields)
	c.FP(h.Script, fmt.Sprintf("nb=%d", h.Len()), fmt.Sprintf("cont=%d", containers), strings.Join(fields, ","), fmt.Sprintf("upd=%d", s.Obs.Get("schema_update")))
	for k, v := range s.Obs.Counts {
		c.Count("obs."+k, v)
	}
	for _, f := range fields {
		c.Seen("optional_columns_seen_appearing", f)
	}
	c.Seen("scripts", h.Script)
	c.Max("max_batches_in_history", int64(h.Len()))
	c.Nontrivial(h.Len() >= 2 || s.Obs.Get("schema_update") > 0 || containers >= 2)
	return s
}

// reportDiff files one violation per distinct abstract descriptor (at most 6 per batch), so
// that a signature names one kind of corruption and known findings cannot mask others.
func reportDiff(c *vc.Case, prop string, d *canon.Diff, w map[string]any) {
	seen := map[string]bool{}
	n := 0
	for i, a := range d.Abstract {
		if seen[a] || n >= 6 {
			continue
		}
		seen[a] = true
		n++
		detail := ""
		if i < len(d.Concrete) {
			detail = d.Concrete[i]
		}
		c.ViolationFor(prop, a, detail+"\nall diffs of this batch:\n"+clip(strings.Join(d.Concrete, "\n"), 1200), w)
	}
}

func stripNums(s string) string { return reNum.ReplaceAllString(reHex.ReplaceAllString(s, "0x?"), "N") }

var rtAssumptions = []string{
	"oracle: pdata's own OTLP/JSON serialisation of input and output, flattened to a multiset of items with their resource and scope (closed world; strip list = span/link flags, log eventName, metric metadata, entity refs)",
	"inputs are built through the pdata API only (no duplicate attribute keys); domain D-valid of the property",
	"cases are a finite PRNG-determined sample; 'held' means held on these executions",
}

func rtMeta(sig string, carve []string) vc.Meta {
	return vc.Meta{
		Level:       "exploration",
		Rule:        "case = one stream history of " + sig + " batches (phase scripts: random / zero-then-nonzero / nonzero-then-zero / repeat / ramp / singles / sparse-nonzero / empty-mix, or an adversarial near-identical-container template) sent through one Producer/Consumer pair; every batch decoded and compared as a canonical multiset. Non-trivial = >=2 batches, or >=1 schema update observed, or >=2 distinct containers. Distinct = distinct fingerprint (script, #batches, #containers, set of optional columns that appeared, #schema updates).",
		Assumptions: rtAssumptions,
		Gates: map[string]map[string]int{
			"quick":    {"obs.schema_update": 50, "optional_columns_seen_appearing": 20, "batches": 500, "near_limit_batches": 6, "long_stream_batches": 800, "wide_batches": 60},
			"thorough": {"obs.schema_update": 500, "optional_columns_seen_appearing": 22, "batches": 10000, "near_limit_batches": 18, "long_stream_batches": 9000, "wide_batches": 200},
		},
		Excluded: carve,
	}
}

func runRoundTrip(t *testing.T, prop string, sig canon.Signal) {
	r := vc.NewRunner(t, prop)
	defer r.Close()
	carve, carveNames := carveFor(prop)
	r.Meta(rtMeta(sig.String(), carveNames))
	e := r.Env
	r.Layer("template", NumTemplates()*e.Pick(2, 20), func(c *vc.Case) {
		h := TemplateHistory(c.R, sig, c.Idx%NumTemplates())
		roundTripHistory(c, h, DefaultOpts(), prop)
		c.Sample(map[string]any{"script": h.Script, "batches": h.Len()})
	})
	r.Layer("history", e.Pick(400, 5000), func(c *vc.Case) {
		g := gen.New(c.R, gen.DValid)
		g.Carve = carve
		h := GenHistory(c.R, g, []canon.Signal{sig}, e.Pick(8, 40), e.Pick(12, 40))
		roundTripHistory(c, h, DefaultOpts(), prop)
		if c.Idx < 64 {
			c.Sample(map[string]any{"script": h.Script, "batches": h.Len(), "first_batch": clip(h.At(0).JSON(), 600)})
		}
	})
	// batches close to the protocol's id width: 32,768 / 45,000 / 65,535 attribute-bearing items are inside
	// the domain (<= 65,535 parents per table) and must round-trip, as the first batch of a stream (schema
	// updates force the record to be built several times), and again after a small batch that brings new
	// optional columns. The items are lean (one or two attributes each) to keep a child's memory bounded.
	r.Layer("near-limit", e.Pick(3, 9), func(c *vc.Case) {
		n := []int{32768, 45000, 65535}[c.Idx%3]
		variant := c.Idx / 3
		g := gen.New(c.R, gen.DValid)
		g.Carve = carve
		h := &History{Script: fmt.Sprintf("near-limit(%d items, variant %d)", n, variant)}
		// the 32,768- and 45,000-item cases also give every item an event and a link (an exemplar): two such
		// batches on one stream bring more related-table parents in total than 16 bits can number
		rel := n < 65535
		h.Batches = []Batch{leanBigRel(sig, n, 0, variant, rel), genBatch(g, sig, 8), leanBigRel(sig, n, 1, variant, rel)}
		if n == 65535 {
			// the 65,535-item case opens its stream with a batch whose attribute-value column holds MORE distinct
			// values (66,000) than the default dictionary limit, each used about four times (262,140 rows, ratio
			// 0.25 < the reset threshold): the dictionary is reset and - the record holding every value of the
			// stream - found too large again right away, so the column must end up without dictionary
			h.Batches[0] = leanBigRel(sig, n, 0, 3, false)
		}
		o := DefaultOpts()
		if variant > 0 {
			o = RandomOpts(c.R)
			o.Limit = []string{"default", "16", "32"}[c.R.IntN(3)]
		}
		roundTripHistory(c, h, o, prop)
		c.Count("near_limit_batches", 2)
		c.Sample(map[string]any{"script": h.Script, "options": o.String()})
	})
	// long streams: hundreds of batches through one producer/consumer pair. Values come from small pools,
	// so what the stream legitimately retains (dictionaries) stays small; the consumer runs with a memory
	// limit (4 MiB) more than ten times above that (measured peak on the repaired tree: 0.15-0.25 MiB), which a valid stream must therefore never hit
	r.Layer("long-stream", e.Pick(2, 6), func(c *vc.Case) {
		g := gen.New(c.R, gen.DValid)
		g.Carve = carve
		nb := e.Pick(400, 1500)
		h := &History{Script: fmt.Sprintf("long-stream(%d batches)", nb), N: nb}
		h.Gen = func(k int) Batch {
			g.ZeroBias = []float64{0.2, 0.5, 0.8}[k%3]
			return genBatch(g, sig, 10+c.R.IntN(30))
		}
		m := NewRecMeter()
		roundTripHistory(c, h, DefaultOpts(), prop, arrow_record.WithMemoryLimit(4<<20), arrow_record.WithMeterProvider(m))
		c.Count("long_stream_batches", int64(nb))
		c.Max("max_consumer_memory_inuse_on_a_long_stream_bytes", m.InuseMax)
		c.Sample(map[string]any{"script": h.Script, "consumer_memory_limit": 4 << 20, "max_consumer_memory_inuse": m.InuseMax})
	})
	// every dictionary-encodable field unique per item (own resource and scope per item): all dictionary
	// columns of every record type cross their index width in the same build; staggered: one after the other
	r.Layer("wide", e.Pick(3, 12), func(c *vc.Case) {
		var h *History
		switch c.Idx % 3 {
		case 0:
			h = WideHistory(sig, 3, 300, 0)
		case 1:
			h = WideHistory(sig, 2, 700, 0)
		default:
			h = WideHistoryOpt(sig, 60, 100, 1, true) // nested optional strings absent until they become active
		}
		roundTripHistory(c, h, DefaultOpts(), prop)
		c.Count("wide_batches", int64(h.Len()))
		c.Sample(map[string]any{"script": h.Script})
	})
	r.Layer("big", e.Pick(6, 30), func(c *vc.Case) {
		g := gen.New(c.R, gen.DValid)
		g.Carve = carve
		h := GenHistory(c.R, g, []canon.Signal{sig}, 3, e.Pick(400, 2000))
		roundTripHistory(c, h, DefaultOpts(), prop)
	})
}

// leanBig builds a batch of n attribute-bearing items with little else: every item is a parent in an
// attribute table (the quantity the protocol's 16-bit ids bound). round selects fresh values, variant the
// shape of the attributes.
func leanBig(sig canon.Signal, n, round, variant int) Batch {
	return leanBigRel(sig, n, round, variant, false)
}

// leanBigRel: with rel, every item also owns one event and one link (traces) or one exemplar (metrics), so
// that the related tables have n parents per batch too - and, over the batches of one stream, more parents
// in total than a 16-bit id could number (each batch alone stays inside the protocol's limit).
func leanBigRel(sig canon.Signal, n, round, variant int, rel bool) Batch {
	put := func(m pcommon.Map, i int) {
		if variant == 3 {
			for j := 0; j < 4; j++ {
				m.PutStr([]string{"a0", "a1", "a2", "a3"}[j], fmt.Sprintf("v%d", (i*4+j)%66000))
			}
			return
		}
		switch variant % 3 {
		case 0:
			m.PutInt("i", int64(i%7+round))
		case 1:
			m.PutStr("k", fmt.Sprintf("v%d", i%500+round*500))
		default:
			m.PutInt("i", int64(i))
			m.PutBool("b", i%2 == round)
		}
	}
	switch sig {
	case canon.Traces:
		td := ptrace.NewTraces()
		ss := td.ResourceSpans().AppendEmpty().ScopeSpans().AppendEmpty()
		ss.Spans().EnsureCapacity(n)
		for i := 0; i < n; i++ {
			sp := ss.Spans().AppendEmpty()
			sp.SetName("op")
			sp.SetSpanID(pcommon.SpanID{byte(i), byte(i >> 8), byte(i >> 16), byte(round + 1)})
			put(sp.Attributes(), i)
			if rel {
				sp.Events().AppendEmpty().SetName("e")
				sp.Links().AppendEmpty().SetSpanID(pcommon.SpanID{byte(i), byte(i >> 8), 9, byte(round + 1)})
			}
		}
		return TB(td)
	case canon.Logs:
		ld := plog.NewLogs()
		sl := ld.ResourceLogs().AppendEmpty().ScopeLogs().AppendEmpty()
		sl.LogRecords().EnsureCapacity(n)
		for i := 0; i < n; i++ {
			lr := sl.LogRecords().AppendEmpty()
			lr.SetTimestamp(pcommon.Timestamp(1_700_000_000_000_000_000 + uint64(i)))
			lr.Body().SetInt(int64(i))
			put(lr.Attributes(), i)
		}
		return LB(ld)
	default:
		// n metrics of one attribute-bearing data point each: the metric id is the 16-bit one
		md := pmetric.NewMetrics()
		sm := md.ResourceMetrics().AppendEmpty().ScopeMetrics().AppendEmpty()
		sm.Metrics().EnsureCapacity(n)
		for i := 0; i < n; i++ {
			m := sm.Metrics().AppendEmpty()
			m.SetName("g")
			dp := m.SetEmptyGauge().DataPoints().AppendEmpty()
			dp.SetIntValue(int64(i))
			dp.SetTimestamp(pcommon.Timestamp(1_700_000_000_000_000_000 + uint64(i)))
			put(dp.Attributes(), i)
			if rel {
				dp.Exemplars().AppendEmpty().SetIntValue(int64(i % 5))
			}
		}
		return MB(md)
	}
}

func TestC01(t *testing.T) { runRoundTrip(t, "C01", canon.Traces) }
func TestC02(t *testing.T) { runRoundTrip(t, "C02", canon.Logs) }
func TestC03(t *testing.T) { runRoundTrip(t, "C03", canon.Metrics) }
