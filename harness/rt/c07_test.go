package rt

import (
	"fmt"
	"sort"
	"strings"
	"testing"

	colarspb "github.com/open-telemetry/otel-arrow/api/experimental/arrow/v1"
	"github.com/open-telemetry/otel-arrow/pkg/otel/arrow_record"

	"verif/common/canon"
	"verif/common/gen"
	"verif/common/vc"
)

// pl is one payload of a (possibly faulty) batch together with what the harness knows about
// where its bytes belong.
type pl struct {
	origID  string // schema id the producer gave these bytes
	id      string // schema id after the fault
	typ     colarspb.ArrowPayloadType
	rec     []byte
	isMain  bool // bytes of the producer's main record
	emptied bool
	dup     bool
	origTyp colarspb.ArrowPayloadType
	// rekeyed: the bytes were given an id that is NOT open at the consumer (unknown, or retired). A consumer
	// that reaches such a payload releases every reader of the payload's (label) type before it tries to open
	// the new id - so it retires the reader of origID ITSELF, and a later payload under origID can only be
	// refused. If the consumer never reached the payload (an earlier payload of the batch failed), the reader
	// of origID silently missed a message: a gap.
	rekeyed bool
}

type retiredID struct {
	id  string
	typ colarspb.ArrowPayloadType
}

type fault struct {
	Op  string
	I   int
	Arg int
}

func (f fault) String() string { return fmt.Sprintf("%s(%d,%d)", f.Op, f.I, f.Arg) }

var knownTypes = func() []int32 {
	var out []int32
	for v := range colarspb.ArrowPayloadType_name {
		out = append(out, v)
	}
	sort.Slice(out, func(i, j int) bool { return out[i] < out[j] })
	return append(out, 99) // plus an unknown enum value
}()

var structuralOps = []string{"drop", "dup-adjacent", "dup-end", "to-front", "to-back", "empty-nil", "empty-zero", "unknown-id", "stale-id"}

// singleFaults enumerates every single payload-level fault for a batch of n payloads.
func singleFaults(n int) []fault {
	var out []fault
	for i := 0; i < n; i++ {
		for _, t := range knownTypes {
			out = append(out, fault{"relabel", i, int(t)})
		}
		for _, op := range structuralOps {
			out = append(out, fault{op, i, 0})
		}
		// stale ids: the three most recently retired ids of the payload's own type, and a foreign one
		out = append(out, fault{"stale-id", i, 1}, fault{"stale-id", i, 2}, fault{"stale-id", i, 99})
	}
	out = append(out, fault{"reverse", 0, 0}, fault{"rotate", 0, 1}, fault{"rotate", 0, n - 1})
	return out
}

// applyFault returns the new payload list and the schema ids whose sub-stream lost bytes.
func applyFault(list []pl, f fault, retired []retiredID, lost map[string]bool) []pl {
	n := len(list)
	if n == 0 {
		return list
	}
	i := ((f.I % n) + n) % n
	cp := func(p pl) pl { q := p; q.rec = append([]byte(nil), p.rec...); return q }
	switch f.Op {
	case "relabel":
		list[i].typ = colarspb.ArrowPayloadType(f.Arg)
	case "drop":
		lost[list[i].origID] = true
		list = append(list[:i:i], list[i+1:]...)
	case "dup-adjacent":
		d := cp(list[i])
		d.dup = true
		list[i].dup = true
		list = append(list[:i+1:i+1], append([]pl{d}, list[i+1:]...)...)
	case "dup-end":
		d := cp(list[i])
		d.dup = true
		list[i].dup = true
		list = append(list, d)
	case "to-front":
		p := list[i]
		rest := append(append([]pl{}, list[:i]...), list[i+1:]...)
		list = append([]pl{p}, rest...)
	case "to-back":
		p := list[i]
		rest := append(append([]pl{}, list[:i]...), list[i+1:]...)
		list = append(rest, p)
	case "reverse":
		for a, b := 0, n-1; a < b; a, b = a+1, b-1 {
			list[a], list[b] = list[b], list[a]
		}
	case "rotate":
		k := ((f.Arg % n) + n) % n
		list = append(append([]pl{}, list[k:]...), list[:k]...)
	case "empty-nil":
		list[i].rec = nil
		list[i].emptied = true
		lost[list[i].origID] = true
	case "empty-zero":
		list[i].rec = []byte{}
		list[i].emptied = true
		lost[list[i].origID] = true
	case "unknown-id":
		list[i].rekeyed = true
		list[i].id = fmt.Sprintf("unknown-%d", i)
	case "stale-id":
		// Arg 0,1,2: the most recently retired ids of this payload's own type; Arg 99: of another type
		var same, other []string
		for k := len(retired) - 1; k >= 0; k-- {
			if retired[k].typ == list[i].typ {
				same = append(same, retired[k].id)
			} else {
				other = append(other, retired[k].id)
			}
		}
		switch {
		case f.Arg != 99 && f.Arg < len(same):
			list[i].id = same[f.Arg]
		case f.Arg == 99 && len(other) > 0:
			list[i].id = other[0]
		case len(same) > 0:
			list[i].id = same[0]
		case len(other) > 0:
			list[i].id = other[0]
		default:
			list[i].id = "never-used-999"
		}
		lost[list[i].origID] = true
	}
	return list
}

func toBar(id int64, list []pl) *colarspb.BatchArrowRecords {
	bar := &colarspb.BatchArrowRecords{BatchId: id}
	for _, p := range list {
		bar.ArrowPayloads = append(bar.ArrowPayloads, &colarspb.ArrowPayload{SchemaId: p.id, Type: p.typ, Record: p.rec})
	}
	return bar
}

// c07History builds prefix + target + 2 followers with schema evolution at every stage.
// A sparse target batch leaves most optional parts out, so that few related payload types are present
// (a payload relabelled to an ABSENT type is then the only record of that type in the batch).
func c07History(c *vc.Case, sig canon.Signal, prefix int, sparse bool) *History {
	g := gen.New(c.R, gen.DValid)
	g.Carve, _ = carveFor("C07")
	h := &History{Script: fmt.Sprintf("c07:prefix=%d", prefix)}
	zb := []float64{0.8, 0.6, 0.45}
	for i := 0; i < prefix; i++ {
		g.ZeroBias = zb[i%3]
		h.Batches = append(h.Batches, genBatch(g, sig, 4+c.R.IntN(8)))
	}
	g.ZeroBias = 0.25
	if sparse {
		g.ZeroBias = 0.93
		h.Script += ":sparse-target"
	}
	h.Batches = append(h.Batches, genBatch(g, sig, 6+c.R.IntN(8)))
	g.ZeroBias = 0.1
	h.Batches = append(h.Batches, genBatch(g, sig, 6+c.R.IntN(8)))
	g.ZeroBias = 0.4
	h.Batches = append(h.Batches, genBatch(g, sig, 4+c.R.IntN(8)))
	return h
}

type c07Stream struct {
	h     *History
	bars  []*colarspb.BatchArrowRecords
	wants []*canon.Set
	ok    bool
}

// encodeAndControl encodes the history and verifies the no-fault control decodes completely.
func encodeAndControl(c *vc.Case, h *History) *c07Stream {
	st := &c07Stream{h: h}
	s := NewStream(DefaultOpts())
	defer s.Close()
	for _, b := range h.Batches {
		w, err := b.Canon()
		if err != nil {
			return st
		}
		bar, err, pi := s.Encode(b)
		if pi != nil || err != nil {
			c.Count("control_producer_failed(not this property)", 1)
			return st
		}
		st.bars = append(st.bars, CloneBar(bar))
		st.wants = append(st.wants, w)
	}
	for k, bar := range st.bars {
		got, _, err, pi := s.Decode(h.Batches[k].Sig, CloneBar(bar))
		if pi != nil {
			c.Violation("control (no fault): consumer "+pi.Signature(), pi.Value+"\n"+clip(pi.Stack, 2500), witness(h, k, DefaultOpts(), nil))
			return st
		}
		if err != nil {
			c.Violation("control (no fault): consumer error on well-formed batch: "+clip(stripNums(err.Error()), 90), err.Error(), witness(h, k, DefaultOpts(), nil))
			return st
		}
		if d := canon.Compare(st.wants[k], got); d != nil {
			c.Violation("control (no fault): well-formed batch not decoded completely: "+d.Signature(1), strings.Join(d.Concrete, "\n"), witness(h, k, DefaultOpts(), nil))
			return st
		}
	}
	st.ok = true
	return st
}

// runFaulty replays the stream into a fresh consumer with `faults` applied to batch `target`.
func runFaulty(c *vc.Case, st *c07Stream, sig canon.Signal, target int, faults []fault) {
	meter := NewRecMeter()
	cons := arrow_record.NewConsumer(arrow_record.WithMeterProvider(meter))
	defer func() { _ = capture(func() { _ = cons.Close() }) }()
	fdesc := fmt.Sprint(faults)
	w := func(k int, extra string) map[string]any {
		return witness(st.h, k, DefaultOpts(), map[string]any{"faults": fdesc, "target_batch": target, "note": extra})
	}
	opened := map[string]bool{}                       // schema ids whose reader has been opened by the consumer
	current := map[colarspb.ArrowPayloadType]string{} // producer-side current id per type
	var retired []retiredID
	note := func(bar *colarspb.BatchArrowRecords) {
		for _, p := range bar.ArrowPayloads {
			if old, ok := current[p.Type]; ok && old != p.SchemaId {
				retired = append(retired, retiredID{old, p.Type})
			}
			current[p.Type] = p.SchemaId
		}
	}
	for k := 0; k < target; k++ {
		_, err, pi := DecodeCount(cons, sig, CloneBar(st.bars[k]))
		if pi != nil || err != nil {
			c.Inconclusive("prefix batch failed although the control passed")
			return
		}
		note(st.bars[k])
		for _, p := range st.bars[k].ArrowPayloads {
			opened[p.SchemaId] = true
		}
	}
	// ---- the faulty batch
	src := st.bars[target]
	list := make([]pl, 0, len(src.ArrowPayloads))
	for i, p := range src.ArrowPayloads {
		list = append(list, pl{origID: p.SchemaId, id: p.SchemaId, typ: p.Type, origTyp: p.Type, rec: append([]byte(nil), p.Record...), isMain: i == 0})
	}
	lost := map[string]bool{}
	for _, f := range faults {
		list = applyFault(list, f, retired, lost)
	}
	note(src)
	bar := toBar(src.BatchId, list)
	gotItems, err, pi := DecodeCount(cons, sig, bar)
	c.Count("faulty_batches_decoded", 1)
	if pi != nil {
		c.Violation("faulty batch: consumer "+pi.Signature(), fdesc+"\n"+pi.Value+"\n"+clip(pi.Stack, 2500), w(target, "panic on the faulty batch"))
		c.Count("outcome.panic", 1)
		return
	}
	nMainIntact := 0
	for _, p := range list {
		if p.isMain && p.typ == mainType[sig] && !p.emptied {
			nMainIntact++
		}
	}
	wantItems := len(st.wants[target].Items)
	switch {
	case err != nil:
		c.Count("outcome.error", 1)
	case nMainIntact >= 1 && wantItems > 0:
		// k intact copies of the main record labelled as main: success must not discard any of them
		if gotItems < nMainIntact*wantItems || (nMainIntact == 1 && gotItems != wantItems) {
			c.Violation("faulty batch: success returned while the main record was discarded",
				fmt.Sprintf("%s: main payload present and intact (%d rows) but %d items returned with err=nil", fdesc, wantItems, gotItems), w(target, "success-but-discarded"))
		}
		if gotItems == nMainIntact*wantItems {
			c.Count("outcome.success_all_items", 1)
		}
	default:
		c.Count("outcome.success_remainder", 1)
		// the main record is in the batch, intact, but under another label only: whatever the consumer
		// makes of it, success means its rows were silently discarded (the statement's last clause)
		nRelabelled := 0
		for _, p := range list {
			if p.isMain && p.typ != mainType[sig] && !p.emptied {
				nRelabelled++
			}
		}
		if nRelabelled > 0 && wantItems > 0 {
			c.Violation("faulty batch: success returned while the (relabelled) main record was discarded",
				fmt.Sprintf("%s: the main payload is present and intact (%d rows) under another payload type; %d items returned with err=nil", fdesc, wantItems, gotItems), w(target, "success-but-relabelled-main-discarded"))
		}
	}
	// ---- which sub-streams did the fault leave with a gap or a repetition?
	nFed := int(meter.LastRecords)
	if err == nil {
		nFed = len(list)
	}
	gap := map[string]bool{}
	openedNow := map[string]bool{}
	for i, p := range list {
		if i < nFed && !p.emptied && p.id == p.origID && !opened[p.id] {
			openedNow[p.id] = true
		}
	}
	wasOpen := func(id string) bool { return opened[id] || openedNow[id] }
	for id := range lost {
		if wasOpen(id) {
			gap[id] = true
		}
	}
	for idx, p := range list {
		if p.rekeyed {
			aware := idx <= nFed && p.typ == p.origTyp && p.id != p.origID
			if aware {
				c.Count("rekeyed_payloads_whose_old_reader_the_consumer_retired_itself", 1)
			} else if wasOpen(p.origID) {
				gap[p.origID] = true
			}
		}
	}
	for _, p := range list {
		// payloads the consumer did not feed to their readers because an earlier payload of the batch
		// failed are NOT a gap it is unaware of: it knows it stopped there (and must cope with it)
		if p.dup && wasOpen(p.origID) {
			gap[p.origID] = true
		}
		if p.id != p.origID {
			gap[p.id] = true // bytes of another sub-stream were fed under this id
		}
	}
	for id := range openedNow {
		opened[id] = true
	}
	// ---- two further well-formed batches
	for k := target + 1; k < len(st.bars); k++ {
		inDomain := true
		for _, p := range st.bars[k].ArrowPayloads {
			if gap[p.SchemaId] {
				inDomain = false
			}
		}
		if !inDomain {
			c.Count("followers.out_of_domain_post_gap(not asserted)", 1)
			return
		}
		c.Count("followers.in_domain_decoded", 1)
		_, ferr, fpi := DecodeCount(cons, sig, CloneBar(st.bars[k]))
		if fpi != nil {
			c.Violation("well-formed batch after a faulty one (sub-streams gap-free): consumer "+fpi.Signature(),
				fdesc+" then batch +"+fmt.Sprint(k-target)+"\n"+fpi.Value+"\n"+clip(fpi.Stack, 2500), w(k, "panic on a later well-formed batch"))
			return
		}
		if ferr != nil {
			c.Count("followers.error", 1)
		} else {
			c.Count("followers.success", 1)
			for _, p := range st.bars[k].ArrowPayloads {
				opened[p.SchemaId] = true
			}
		}
	}
}

func TestC07(t *testing.T) {
	r := vc.NewRunner(t, "C07")
	defer r.Close()
	_, carveNames := carveFor("C07")
	yes := true
	r.Meta(vc.Meta{
		Level:       "fault_enumeration",
		Rule:        "case = (signal, valid prefix of 0/1/3 batches, target batch, fault list, two further well-formed batches) replayed into a fresh Consumer. Layer 'single' enumerates EVERY single payload-level fault of the target batch: relabel payload i to each of the known payload types and to an unknown enum value, drop i, duplicate i (adjacent / at end), move i to front / back, reverse, rotate, empty i (nil and zero-length), unknown schema id, stale (retired) schema id. Layer 'combo' = PRNG-chosen combinations of 2-4 faults. Layer 'refused-stream' = a 300-batch stream in which nine batches of ten have one payload of an open sub-stream relabelled (refused, readers in step) and every tenth is intact and must decode completely, under a 4 MiB consumer memory limit (ten times the stream's need). Oracle: the no-fault control decodes completely; on the faulty batch no panic, and err==nil with the intact main payload present requires all its rows (and err==nil is not acceptable at all when the intact main payload is present under another label only); on later well-formed batches no panic provided the fault left the sub-streams they continue gap-free and duplicate-free (otherwise counted as out_of_domain_post_gap and not asserted). Non-trivial = every fault case; distinct = (signal, prefix, fault list).",
		Assumptions: []string{"byte splicing between sub-streams and bit flips inside IPC buffers are outside the property's domain and not generated", "which payloads the consumer fed to its readers is inferred from the arrow_batch_records metric it publishes"},
		Gates: map[string]map[string]int{
			"quick":    {"faulty_batches_decoded": 2000, "followers.in_domain_decoded": 500, "outcome.error": 500, "refused_stream_batches_refused": 800},
			"thorough": {"faulty_batches_decoded": 20000, "followers.in_domain_decoded": 5000, "outcome.error": 5000, "refused_stream_batches_refused": 15000},
		},
		Exhaustive:       nil,
		ExhaustiveLayers: []string{"single (all single payload-level faults of the target batch, per signal x prefix length)"},
		Excluded:         carveNames,
	})
	_ = yes
	e := r.Env
	prefixes := []int{0, 1, 3}
	reps := e.Pick(2, 6) // odd repetitions use a sparse target batch
	// every history's single-fault enumeration is split into `chunks` cases so that shards share it;
	// all chunks of a history re-generate the same history from its own PRNG stream
	const chunks = 6
	r.Layer("single", 9*reps*chunks, func(c *vc.Case) {
		hist, chunk := c.Idx/chunks, c.Idx%chunks
		sig := canon.Signal(hist % 3)
		prefix := prefixes[(hist/3)%3]
		c.R = vc.NewRand(e.Seed, "C07", "single-history", hist)
		st := encodeAndControl(c, c07History(c, sig, prefix, (hist/9)%2 == 1))
		if !st.ok {
			return
		}
		n := len(st.bars[prefix].ArrowPayloads)
		if (hist/9)%2 == 1 {
			c.Count("single_fault_histories_with_sparse_target", 1)
		}
		fs := singleFaults(n)
		done := 0
		for fi, f := range fs {
			if fi%chunks != chunk {
				continue
			}
			runFaulty(c, st, sig, prefix, []fault{f})
			c.Sub(fmt.Sprintf("%v/%d/%d/%s/%d", sig, prefix, n, f, hist/9))
			done++
		}
		c.Count("single_fault_cases", int64(done))
		if chunk == 0 {
			c.Count("histories_with_exhaustive_single_fault_layer", 1)
			c.Count("single_faults_per_history_total", int64(len(fs)))
		}
		c.FP(sig.String(), fmt.Sprint(prefix), fmt.Sprint(n), fmt.Sprint(hist/9), fmt.Sprint(chunk))
		c.Nontrivial(true)
		if chunk == 0 {
			c.Sample(map[string]any{"signal": sig.String(), "prefix_batches": prefix, "payloads_in_target": n, "single_faults_enumerated": len(fs),
				"example_faults": []string{fs[0].String(), fs[len(fs)/2].String(), fs[len(fs)-1].String()}})
		}
	})
	// "Given a well-formed batch on a healthy stream the consumer returns all of its telemetry" - also after a
	// long history of damaged batches that it refused. Every batch of a 300-batch stream has ONE payload of an
	// already open sub-stream relabelled (the bytes still reach their own IPC readers, which therefore stay in
	// step: the stream remains healthy); every tenth batch is left intact and must decode completely. The
	// consumer runs under a 4 MiB memory limit, more than ten times what such a stream needs (measured peak
	// 0.15-0.25 MiB): refusing batches must not cost anything that is never given back.
	r.Layer("refused-stream", e.Pick(6, 60), func(c *vc.Case) {
		sig := canon.Signal(c.Idx % 3)
		g := gen.New(c.R, gen.DValid)
		g.Carve, _ = carveFor("C07")
		nb := e.Pick(300, 600)
		meter := NewRecMeter()
		s := NewStream(DefaultOpts(), arrow_record.WithMemoryLimit(4<<20), arrow_record.WithMeterProvider(meter))
		defer s.Close()
		opened := map[string]bool{}
		refused, intact := 0, 0
		for k := 0; k < nb; k++ {
			g.ZeroBias = []float64{0.2, 0.5, 0.8}[k%3]
			b := genBatch(g, sig, 6+c.R.IntN(14))
			want, err := b.Canon()
			if err != nil {
				c.Inconclusive("canon(input): " + err.Error())
				return
			}
			bar, err, pi := s.Encode(b)
			if pi != nil || err != nil {
				c.Count("control_producer_failed(not this property)", 1)
				return
			}
			bar = CloneBar(bar)
			// candidates: related payloads whose sub-stream is already open at the consumer
			var cand []int
			for i, p := range bar.ArrowPayloads {
				if i > 0 && opened[p.SchemaId] {
					cand = append(cand, i)
				}
			}
			faulty := k%10 != 9 && len(cand) > 0
			desc := "intact"
			if faulty {
				i := cand[c.R.IntN(len(cand))]
				t := colarspb.ArrowPayloadType(knownTypes[c.R.IntN(len(knownTypes))])
				for t == bar.ArrowPayloads[i].Type || t == mainType[sig] {
					t = colarspb.ArrowPayloadType(knownTypes[c.R.IntN(len(knownTypes))])
				}
				desc = fmt.Sprintf("payload %d relabelled %v -> %v", i, bar.ArrowPayloads[i].Type, t)
				bar.ArrowPayloads[i].Type = t
			}
			items, derr, dpi := DecodeCount(s.C, sig, bar)
			w := witness(&History{Script: "refused-stream", Batches: []Batch{b}}, 0, DefaultOpts(), map[string]any{"batch_index_in_stream": k, "fault": desc, "refused_so_far": refused})
			if dpi != nil {
				c.Violation("refused-stream: consumer "+dpi.Signature(), desc+"\n"+dpi.Value+"\n"+clip(dpi.Stack, 2500), w)
				return
			}
			if faulty {
				if derr != nil {
					refused++
				} else {
					c.Count("relabelled_batches_decoded_without_error", 1)
				}
			} else {
				intact++
				if derr != nil {
					c.Violation("well-formed batch on a healthy stream refused after a history of refused batches: "+clip(stripNums(derr.Error()), 90),
						fmt.Sprintf("batch %d of the stream (intact) after %d refused batches: %v", k, refused, derr), w)
					return
				}
				if items != len(want.Items) {
					c.Violation("well-formed batch on a healthy stream not decoded completely after a history of refused batches",
						fmt.Sprintf("batch %d of the stream (intact) after %d refused batches: %d items returned, %d encoded", k, refused, items, len(want.Items)), w)
					return
				}
			}
			if derr == nil || !faulty {
				for _, p := range bar.ArrowPayloads {
					opened[p.SchemaId] = true
				}
			}
		}
		c.Count("refused_stream_batches_refused", int64(refused))
		c.Count("refused_stream_intact_batches_decoded", int64(intact))
		c.Max("max_consumer_memory_inuse_on_a_refused_stream_bytes", meter.InuseMax)
		c.FP("refused-stream", sig.String(), fmt.Sprint(c.Idx))
		c.Nontrivial(refused > 0)
		c.Sample(map[string]any{"layer": "refused-stream", "signal": sig.String(), "batches": nb, "refused": refused, "intact_decoded": intact, "max_consumer_memory_inuse": meter.InuseMax})
	})
	r.Layer("combo", e.Pick(300, 10000), func(c *vc.Case) {
		sig := canon.Signal(c.R.IntN(3))
		prefix := prefixes[c.R.IntN(3)]
		st := encodeAndControl(c, c07History(c, sig, prefix, c.Idx%4 == 3))
		if !st.ok {
			return
		}
		n := len(st.bars[prefix].ArrowPayloads)
		all := singleFaults(n)
		// structural faults are rarer in the enumeration than relabels: draw half of the combo from them
		k := 2 + c.R.IntN(3)
		var fs []fault
		for i := 0; i < k; i++ {
			if c.R.IntN(2) == 0 {
				fs = append(fs, fault{structuralOps[c.R.IntN(len(structuralOps))], c.R.IntN(n), c.R.IntN(3)})
			} else {
				fs = append(fs, all[c.R.IntN(len(all))])
			}
		}
		runFaulty(c, st, sig, prefix, fs)
		c.FP(sig.String(), fmt.Sprint(prefix), fmt.Sprint(fs))
		c.Nontrivial(true)
		if c.Idx < 40 {
			c.Sample(map[string]any{"signal": sig.String(), "prefix_batches": prefix, "faults": fmt.Sprint(fs)})
		}
	})
}
