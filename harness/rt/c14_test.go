package rt

import (
	"errors"
	"fmt"
	"strings"
	"testing"

	colarspb "github.com/open-telemetry/otel-arrow/api/experimental/arrow/v1"
	"github.com/open-telemetry/otel-arrow/pkg/otel/arrow_record"

	"verif/common/canon"
	"verif/common/gen"
	"verif/common/vc"
)

// c14Stream builds a stream of one of several shapes and encodes it.
func c14Stream(c *vc.Case, shape int) (*History, OptSet) {
	sig := canon.Signal(c.R.IntN(3))
	o := DefaultOpts()
	o.Zstd = c.R.IntN(2)
	g := gen.New(c.R, gen.DValid)
	g.Carve, _ = carveFor("C14")
	var h *History
	switch shape % 5 {
	case 0: // small hostile batches
		h = GenHistory(c.R, g, []canon.Signal{sig}, 6, 20)
	case 1: // large batches
		h = RampHistory(c.R, sig, 3, 3000+c.R.IntN(2000), false)
	case 2: // growing dictionaries retained across batches
		h = RampHistory(c.R, sig, 6, 400, true)
	case 3: // long strings
		g.ZeroBias = 0.2
		h = &History{Script: "long-strings"}
		for i := 0; i < 4; i++ {
			b := genBatch(g, canon.Logs, 30)
			rl := b.L.ResourceLogs()
			for a := 0; a < rl.Len(); a++ {
				sl := rl.At(a).ScopeLogs()
				for bb := 0; bb < sl.Len(); bb++ {
					lr := sl.At(bb).LogRecords()
					for k := 0; k < lr.Len(); k++ {
						lr.At(k).Body().SetStr(strings.Repeat(fmt.Sprintf("long-%d-%d ", i, k), 400+c.R.IntN(2000)))
					}
				}
			}
			h.Batches = append(h.Batches, b)
		}
	default: // mixed zero/non-zero evolution
		g.ZeroBias = 0.7
		h = &History{Script: "evolve"}
		for i := 0; i < 5; i++ {
			g.ZeroBias -= 0.12
			h.Batches = append(h.Batches, genBatch(g, sig, 40+c.R.IntN(200)))
		}
	}
	return h, o
}

func TestC14(t *testing.T) {
	r := vc.NewRunner(t, "C14")
	defer r.Close()
	_, carveNames := carveFor("C14")
	r.Meta(vc.Meta{
		Level:       "exploration",
		Rule:        "case = one encoded stream (3 signals, zstd on/off; shapes: small hostile batches, 3,000-5,000-item batches, growing retained dictionaries, long strings, schema evolution) decoded by consumers created with a ladder of 16 memory limits from 1 byte to 70 MiB placed around the stream's measured peak, plus 2^32, 2^63-1, 2^63 and 2^64-1. Oracle per (stream, limit): no panic; the running sum of arrow_memory_inuse deltas published to the supplied MeterProvider stays within [0, limit] after every call; the first error on a stream whose control run succeeded satisfies errors.Is(err, ErrConsumerMemoryLimit); batches decoded successfully equal the encoded telemetry; metamorphic: the number of batches decoded before the first refusal is monotone in the limit. Layer 'two-streams': a big batch then a small one (a subset of it, re-keyed so that it opens new streams of the same payload types) on one consumer, scanned over 49 limits between half the small batch's need and 1.25 x the big batch's peak: each of the two, once decodable under a limit, must be decodable (same telemetry) under every larger one - also where the big batch was refused after some of its payloads had been decoded. Non-trivial (stream, limit) = at least one batch decoded and one refused. Distinct = (shape, signal, zstd, #decoded, limit bucket).",
		Assumptions: []string{"in-use memory is observed through the metric the consumer itself publishes (arrow_memory_inuse), at call boundaries", "later errors on a consumer that already refused a batch are only required not to panic"},
		Gates: map[string]map[string]int{
			"quick":    {"pairs": 400, "first_refusals_recognised": 100, "pairs_some_decoded_some_refused": 20, "two_stream_limits_with_the_big_batch_refused_after_its_first_payload": 30},
			"thorough": {"pairs": 6000, "first_refusals_recognised": 1500, "pairs_some_decoded_some_refused": 300, "two_stream_limits_with_the_big_batch_refused_after_its_first_payload": 300},
		},
		Excluded: carveNames,
	})
	e := r.Env
	r.Layer("stream", e.Pick(40, 600), func(c *vc.Case) {
		h, o := c14Stream(c, c.Idx)
		// encode
		s := NewStream(o)
		var bars []*colarspb.BatchArrowRecords
		var wants []*canon.Set
		for _, b := range h.Batches {
			w, err := b.Canon()
			if err != nil {
				c.Inconclusive("canon: " + err.Error())
				s.Close()
				return
			}
			bar, err, pi := s.Encode(b)
			if err != nil || pi != nil {
				c.Count("producer_failed(not this property)", 1)
				s.Close()
				return
			}
			bars = append(bars, CloneBar(bar))
			wants = append(wants, w)
		}
		s.Close()
		// control at the default limit + peak measurement
		meter := NewRecMeter()
		ctl := arrow_record.NewConsumer(arrow_record.WithMeterProvider(meter))
		for k, bar := range bars {
			got, _, err, pi := DecodeWith(ctl, h.Batches[k].Sig, CloneBar(bar))
			if pi != nil || err != nil {
				c.Count("control_failed(not this property)", 1)
				return
			}
			if canon.Compare(wants[k], got) != nil {
				c.Count("control_mismatch(not this property)", 1)
				return
			}
		}
		_ = ctl.Close()
		peak := uint64(meter.InuseMax)
		if peak < 1024 {
			peak = 1024
		}
		limits := []uint64{1, 100, 4096, peak / 16, peak / 6, peak / 3, peak / 2, peak * 3 / 4, peak - 1, peak + peak/3, peak * 4, 70 << 20,
			// "raising the limit never turns a decodable batch into a refused one": also far beyond any real
			// memory, around the widths where limit arithmetic could wrap
			1 << 32, 1<<63 - 1, 1 << 63, ^uint64(0)}
		prevDecoded := -1
		var prevLimit uint64
		sort := func(a []uint64) {
			for i := 1; i < len(a); i++ {
				for j := i; j > 0 && a[j] < a[j-1]; j-- {
					a[j], a[j-1] = a[j-1], a[j]
				}
			}
		}
		sort(limits)
		c.Count("streams", 1)
		c.Max("max_peak_bytes", int64(peak))
		for _, L := range limits {
			if L == 0 {
				continue
			}
			m := NewRecMeter()
			cons := arrow_record.NewConsumer(arrow_record.WithMemoryLimit(L), arrow_record.WithMeterProvider(m))
			decoded, refused := 0, false
			w := func(k int, extra map[string]any) map[string]any {
				x := witness(h, k, o, map[string]any{"limit_bytes": L, "peak_bytes_at_default_limit": peak})
				for kk, v := range extra {
					x[kk] = v
				}
				return x
			}
			for k, bar := range bars {
				got, _, err, pi := DecodeWith(cons, h.Batches[k].Sig, CloneBar(bar))
				if pi != nil {
					c.Violation("consumer with memory limit: "+pi.Signature(), fmt.Sprintf("limit=%d batch=%d\n%s\n%s", L, k, pi.Value, clip(pi.Stack, 2500)), w(k, nil))
					break
				}
				if m.Inuse < 0 || uint64(m.Inuse) > L {
					c.Violation("reported arrow_memory_inuse outside [0, limit]", fmt.Sprintf("limit=%d inuse=%d after batch %d (err=%v)", L, m.Inuse, k, err), w(k, nil))
				}
				if err != nil {
					if !refused {
						refused = true
						if errors.Is(err, arrow_record.ErrConsumerMemoryLimit) {
							c.Count("first_refusals_recognised", 1)
						} else {
							c.Violation("first refusal under a memory limit is not recognisable as ErrConsumerMemoryLimit: "+clip(stripNums(err.Error()), 100),
								fmt.Sprintf("limit=%d batch=%d err=%v", L, k, err), w(k, nil))
						}
					} else {
						c.Count("later_errors_after_first_refusal", 1)
					}
					continue
				}
				if !refused {
					decoded++
				}
				if d := canon.Compare(wants[k], got); d != nil {
					c.Violation("batch decoded under a memory limit differs from the encoded telemetry: "+d.Signature(1), strings.Join(d.Concrete, "\n"), w(k, nil))
				} else {
					c.Count("batches_decoded_correctly", 1)
				}
			}
			pi := capture(func() { _ = cons.Close() })
			if pi != nil {
				c.Violation("consumer.Close with memory limit: "+pi.Signature(), pi.Value, w(-1, nil))
			}
			c.Count("inuse_after_close_is_zero", b2i(m.Inuse == 0))
			c.Count("pairs", 1)
			if decoded > 0 && refused {
				c.Count("pairs_some_decoded_some_refused", 1)
			}
			if refused {
				c.Count("pairs_with_refusal", 1)
			}
			// metamorphic monotonicity in the limit
			if prevDecoded >= 0 && decoded < prevDecoded {
				c.Violation("raising the memory limit turned a decodable batch into a refused one",
					fmt.Sprintf("limit %d decoded %d batches before the first refusal, limit %d only %d", prevLimit, prevDecoded, L, decoded), w(-1, nil))
			}
			prevDecoded, prevLimit = decoded, L
			bucket := "below-peak"
			if L >= peak {
				bucket = "above-peak"
			}
			c.SubNT(fmt.Sprintf("%s/%v/%d/dec=%d/%s/nb=%d", h.Script, h.Batches[0].Sig, o.Zstd, decoded, bucket, len(bars)), decoded > 0 && refused)
		}
		if c.Idx < 20 {
			c.Sample(map[string]any{"script": h.Script, "signal": h.Batches[0].Sig.String(), "zstd": o.Zstd, "batches": len(bars), "peak_bytes": peak, "limits": limits})
		}
	})
	// "Raising the limit never turns a decodable batch into a refused one" across a refusal: a big batch B opens
	// one stream, then a small batch S - a subset of B's items, encoded by its own producer, its schema ids
	// prefixed so that it opens NEW streams of the same payload types - arrives at the same consumer. Scanned
	// over 48 limits between half of S's need and 1.25 x B's peak: where B is refused on its FIRST payload
	// nothing of it remains; where it is refused on a LATER payload the readers already fed stay open until S's
	// payload of the same type retires them (S being payload-wise smaller than B, that is never more than B
	// itself needed). So S, once decodable under some limit, must be decodable under every larger one, with
	// the same telemetry - unless a refused batch keeps memory that is never given back.
	r.Layer("two-streams", e.Pick(12, 120), func(c *vc.Case) {
		sig := canon.Signal(c.Idx % 3)
		g := gen.New(c.R, gen.DValid)
		g.Carve, _ = carveFor("C14")
		g.ZeroBias = 0.2
		small := genBatch(g, sig, 40+c.R.IntN(60))
		big := copyBatch(small)
		extra := genBatch(g, sig, 200+c.R.IntN(300))
		switch sig {
		case canon.Traces:
			extra.T.ResourceSpans().MoveAndAppendTo(big.T.ResourceSpans())
		case canon.Logs:
			extra.L.ResourceLogs().MoveAndAppendTo(big.L.ResourceLogs())
		default:
			extra.M.ResourceMetrics().MoveAndAppendTo(big.M.ResourceMetrics())
		}
		o := DefaultOpts()
		o.Zstd = c.R.IntN(2)
		enc := func(b Batch, prefix string) (*colarspb.BatchArrowRecords, *canon.Set) {
			w, err := b.Canon()
			if err != nil {
				return nil, nil
			}
			s := NewStream(o)
			defer s.Close()
			bar, err, pi := s.Encode(b)
			if err != nil || pi != nil {
				return nil, nil
			}
			bar = CloneBar(bar)
			for _, p := range bar.ArrowPayloads {
				p.SchemaId = prefix + p.SchemaId
			}
			return bar, w
		}
		barB, wantB := enc(big, "a-")
		barS, wantS := enc(small, "b-")
		if barB == nil || barS == nil {
			c.Count("producer_failed(not this property)", 1)
			return
		}
		need := func(bar *colarspb.BatchArrowRecords, want *canon.Set) uint64 {
			m := NewRecMeter()
			ctl := arrow_record.NewConsumer(arrow_record.WithMeterProvider(m))
			defer func() { _ = ctl.Close() }()
			got, _, err, pi := DecodeWith(ctl, sig, CloneBar(bar))
			if err != nil || pi != nil || canon.Compare(want, got) != nil {
				return 0
			}
			return uint64(m.InuseMax)
		}
		needS, peakB := need(barS, wantS), need(barB, wantB)
		if needS == 0 || peakB == 0 || peakB <= needS {
			c.Count("control_failed(not this property)", 1)
			return
		}
		lo, hi := needS/2, peakB+peakB/4
		const steps = 48
		var okSAt, okBAt uint64
		mid := 0
		w := func(L uint64, extra map[string]any) map[string]any {
			x := witness(&History{Script: "two-streams", Batches: []Batch{big, small}}, 1, o, map[string]any{"limit_bytes": L, "need_of_small_alone": needS, "peak_of_big_alone": peakB})
			for k, v := range extra {
				x[k] = v
			}
			return x
		}
		for i := 0; i <= steps; i++ {
			L := lo + (hi-lo)*uint64(i)/steps
			m := NewRecMeter()
			cons := arrow_record.NewConsumer(arrow_record.WithMemoryLimit(L), arrow_record.WithMeterProvider(m))
			step := func(bar *colarspb.BatchArrowRecords, want *canon.Set, name string, okAt *uint64) bool {
				got, _, err, pi := DecodeWith(cons, sig, CloneBar(bar))
				if pi != nil {
					c.Violation("consumer with memory limit: "+pi.Signature(), fmt.Sprintf("limit=%d batch=%s\n%s", L, name, pi.Value), w(L, nil))
					return false
				}
				if m.Inuse < 0 || uint64(m.Inuse) > L {
					c.Violation("reported arrow_memory_inuse outside [0, limit]", fmt.Sprintf("limit=%d inuse=%d after batch %s (err=%v)", L, m.Inuse, name, err), w(L, nil))
				}
				if err != nil {
					if !errors.Is(err, arrow_record.ErrConsumerMemoryLimit) {
						c.Violation("first refusal under a memory limit is not recognisable as ErrConsumerMemoryLimit: "+clip(stripNums(err.Error()), 100), fmt.Sprintf("limit=%d batch=%s err=%v", L, name, err), w(L, nil))
					} else if *okAt != 0 {
						c.Violation("raising the memory limit turned a decodable batch into a refused one",
							fmt.Sprintf("batch %s (new streams) decodes under limit %d but is refused under limit %d: %v", name, *okAt, L, err), w(L, map[string]any{"decodable_under_limit": *okAt}))
					}
					return false
				}
				if *okAt == 0 {
					*okAt = L
				}
				if d := canon.Compare(want, got); d != nil {
					c.Violation("batch decoded under a memory limit differs from the encoded telemetry: "+d.Signature(1), strings.Join(d.Concrete, "\n"), w(L, nil))
				}
				return true
			}
			if !step(barB, wantB, "big", &okBAt) && m.LastRecords > 0 {
				mid++
			}
			step(barS, wantS, "small", &okSAt)
			_ = capture(func() { _ = cons.Close() })
			c.Count("two_stream_limits_scanned", 1)
		}
		c.Count("two_stream_limits_with_the_big_batch_refused_after_its_first_payload", int64(mid))
		c.FP("two-streams", sig.String(), fmt.Sprint(o.Zstd), fmt.Sprint(c.Idx))
		c.Nontrivial(mid > 0)
		if c.Idx < 6 {
			c.Sample(map[string]any{"layer": "two-streams", "signal": sig.String(), "need_of_small_alone": needS, "peak_of_big_alone": peakB, "limits_scanned": steps + 1, "mid_batch_refusals_of_big": mid, "small_decodable_from": okSAt, "big_decodable_from": okBAt})
		}
	})
}

func b2i(b bool) int64 {
	if b {
		return 1
	}
	return 0
}
