package rt

import (
	"fmt"
	"strings"
	"testing"

	"go.opentelemetry.io/collector/pdata/pcommon"
	"go.opentelemetry.io/collector/pdata/plog"
	"go.opentelemetry.io/collector/pdata/pmetric"
	"go.opentelemetry.io/collector/pdata/ptrace"

	"verif/common/canon"
	"verif/common/gen"
	"verif/common/vc"
)

// noPanicHistory sends h through one producer; a panic is a C08 violation. Batches that are
// returned (not refused) are also decoded when checkRT is set: an oversize input that yields a
// batch instead of an error must round-trip (silent id wrap-around is corruption, not excused).
func noPanicHistory(c *vc.Case, h *History, o OptSet, mustRefuse map[int]bool, checkRT bool) {
	s := NewStream(o)
	defer s.Close()
	defer func() {
		// dictionary state machine transitions this history drove (coverage, from the producer's observer)
		c.Count("dictionary_resets", s.Obs.Get("reset"))
		c.Count("dictionary_overflows", s.Obs.Get("overflow"))
		for k, v := range s.Obs.Counts {
			if strings.HasPrefix(k, "upgrade_") {
				c.Count("dictionary_upgrades", v)
			}
		}
	}()
	for k, b := range h.Batches {
		var want *canon.Set
		if checkRT && mustRefuse[k] {
			want, _ = b.Canon()
		}
		bar, err, pi := s.Encode(b)
		c.Count("producer_calls", 1)
		if pi != nil {
			c.Violation("producer "+pi.Signature(), fmt.Sprintf("batch %d of %d (%s)\n%s\n%s", k, len(h.Batches), h.Script, pi.Value, clip(pi.Stack, 3000)), witness(h, k, o, nil))
			c.Count("panics", 1)
			return
		}
		if err != nil {
			c.Count("refused", 1)
			c.Seen("refusal_errors", clip(stripNums(err.Error()), 80))
			continue
		}
		c.Count("encoded", 1)
		if !checkRT {
			continue
		}
		// the consumer must see every emitted batch, in order, to stay in step with the stream
		got, _, derr, dpi := s.Decode(b.Sig, bar)
		if !mustRefuse[k] {
			continue // valid small batches: their round trip is C01-C03's business
		}
		c.Count("oversize_batches_not_refused", 1)
		w := witness(h, -1, o, map[string]any{"batch": k, "items": b.Items()})
		switch {
		case dpi != nil:
			c.Violation("oversize batch accepted, consumer "+dpi.Signature(), dpi.Value, w)
		case derr != nil:
			c.Violation("oversize batch accepted but undecodable", derr.Error(), w)
		case want != nil:
			if d := canon.Compare(want, got); d != nil {
				c.Violation("oversize batch accepted instead of refused and decodes to different telemetry: "+d.Signature(2), strings.Join(d.Concrete, "\n"), w)
			} else {
				c.Count("oversize_batches_accepted_and_round_tripped", 1)
			}
		}
	}
}

// oversize builds a batch with more parents than an id column can address.
func oversize(kind int, n int) (Batch, string) {
	switch kind {
	case 0: // attribute-bearing spans
		td := ptrace.NewTraces()
		ss := td.ResourceSpans().AppendEmpty().ScopeSpans().AppendEmpty()
		ss.Spans().EnsureCapacity(n)
		for i := 0; i < n; i++ {
			ss.Spans().AppendEmpty().Attributes().PutInt("i", int64(i%7))
		}
		return TB(td), "spans-with-attributes"
	case 1: // attribute-bearing log records
		ld := plog.NewLogs()
		sl := ld.ResourceLogs().AppendEmpty().ScopeLogs().AppendEmpty()
		sl.LogRecords().EnsureCapacity(n)
		for i := 0; i < n; i++ {
			sl.LogRecords().AppendEmpty().Attributes().PutInt("i", int64(i%7))
		}
		return LB(ld), "logs-with-attributes"
	case 2: // metrics
		md := pmetric.NewMetrics()
		sm := md.ResourceMetrics().AppendEmpty().ScopeMetrics().AppendEmpty()
		sm.Metrics().EnsureCapacity(n)
		for i := 0; i < n; i++ {
			m := sm.Metrics().AppendEmpty()
			m.SetName("m")
			m.SetEmptyGauge().DataPoints().AppendEmpty().SetIntValue(int64(i))
		}
		return MB(md), "metrics"
	case 3: // resources with attributes
		td := ptrace.NewTraces()
		td.ResourceSpans().EnsureCapacity(n)
		for i := 0; i < n; i++ {
			rs := td.ResourceSpans().AppendEmpty()
			rs.Resource().Attributes().PutInt("r", int64(i))
			rs.ScopeSpans().AppendEmpty().Spans().AppendEmpty().SetName("s")
		}
		return TB(td), "resources-with-attributes"
	case 4: // scopes without attributes
		td := ptrace.NewTraces()
		rs := td.ResourceSpans().AppendEmpty()
		rs.ScopeSpans().EnsureCapacity(n)
		for i := 0; i < n; i++ {
			ss := rs.ScopeSpans().AppendEmpty()
			ss.Scope().SetName(fmt.Sprintf("s%d", i))
			ss.Spans().AppendEmpty().SetName("s")
		}
		return TB(td), "scopes"
	case 5: // event-bearing spans
		td := ptrace.NewTraces()
		ss := td.ResourceSpans().AppendEmpty().ScopeSpans().AppendEmpty()
		ss.Spans().EnsureCapacity(n)
		for i := 0; i < n; i++ {
			ss.Spans().AppendEmpty().Events().AppendEmpty().SetName("e")
		}
		return TB(td), "spans-with-events"
	case 6: // link-bearing spans
		td := ptrace.NewTraces()
		ss := td.ResourceSpans().AppendEmpty().ScopeSpans().AppendEmpty()
		ss.Spans().EnsureCapacity(n)
		for i := 0; i < n; i++ {
			ss.Spans().AppendEmpty().Links().AppendEmpty().SetSpanID(pcommon.SpanID{1})
		}
		return TB(td), "spans-with-links"
	case 7: // log resources with attributes
		ld := plog.NewLogs()
		ld.ResourceLogs().EnsureCapacity(n)
		for i := 0; i < n; i++ {
			rl := ld.ResourceLogs().AppendEmpty()
			rl.Resource().Attributes().PutInt("r", int64(i))
			rl.ScopeLogs().AppendEmpty().LogRecords().AppendEmpty().Body().SetStr("x")
		}
		return LB(ld), "log-resources-with-attributes"
	case 8: // metric scopes with attributes
		md := pmetric.NewMetrics()
		rm := md.ResourceMetrics().AppendEmpty()
		rm.ScopeMetrics().EnsureCapacity(n)
		for i := 0; i < n; i++ {
			sm := rm.ScopeMetrics().AppendEmpty()
			sm.Scope().Attributes().PutInt("s", int64(i))
			sm.Metrics().AppendEmpty().SetName("m")
		}
		return MB(md), "metric-scopes-with-attributes"
	case 9: // resources without attributes (traces)
		td := ptrace.NewTraces()
		td.ResourceSpans().EnsureCapacity(n)
		for i := 0; i < n; i++ {
			rs := td.ResourceSpans().AppendEmpty()
			rs.SetSchemaUrl(fmt.Sprintf("u%d", i))
			rs.ScopeSpans().AppendEmpty().Spans().AppendEmpty().SetName("s")
		}
		return TB(td), "resources-without-attributes"
	case 11: // log records whose attribute maps hold only entries the encoder drops (unset value / empty key)
		ld := plog.NewLogs()
		sl := ld.ResourceLogs().AppendEmpty().ScopeLogs().AppendEmpty()
		sl.LogRecords().EnsureCapacity(n)
		for i := 0; i < n; i++ {
			m := sl.LogRecords().AppendEmpty().Attributes()
			m.PutEmpty("k")
			if i%2 == 0 {
				m.PutInt("", int64(i))
			}
		}
		return LB(ld), "logs-with-only-dropped-attributes"
	case 12: // spans whose attribute maps hold only dropped entries
		td := ptrace.NewTraces()
		ss := td.ResourceSpans().AppendEmpty().ScopeSpans().AppendEmpty()
		ss.Spans().EnsureCapacity(n)
		for i := 0; i < n; i++ {
			ss.Spans().AppendEmpty().Attributes().PutEmpty("k")
		}
		return TB(td), "spans-with-only-dropped-attributes"
	case 13: // one-point metrics whose data-point attribute maps hold only dropped entries
		md := pmetric.NewMetrics()
		sm := md.ResourceMetrics().AppendEmpty().ScopeMetrics().AppendEmpty()
		sm.Metrics().EnsureCapacity(n)
		for i := 0; i < n; i++ {
			m := sm.Metrics().AppendEmpty()
			m.SetName("m")
			dp := m.SetEmptyGauge().DataPoints().AppendEmpty()
			dp.SetIntValue(int64(i))
			dp.Attributes().PutEmpty("k")
		}
		return MB(md), "metrics-with-only-dropped-attributes"
	default: // spans without attributes: representable (no 16-bit parent table involved)? still > 65,535 rows of a u16 delta id
		td := ptrace.NewTraces()
		ss := td.ResourceSpans().AppendEmpty().ScopeSpans().AppendEmpty()
		ss.Spans().EnsureCapacity(n)
		for i := 0; i < n; i++ {
			ss.Spans().AppendEmpty().SetName("s")
		}
		return TB(td), "spans-plain"
	}
}

const numOversizeKinds = 14

func smallValid(r *gen.G, sig canon.Signal) Batch {
	r.ZeroBias = 0.4
	return genBatch(r, sig, 5)
}

func TestC08(t *testing.T) {
	r := vc.NewRunner(t, "C08")
	defer r.Close()
	carve, carveNames := carveFor("C08")
	r.Meta(vc.Meta{
		Level:       "exploration",
		Rule:        "case = one producer history over domain D-any (everything pdata can hold: invalid UTF-8, timestamps up to 2^64-1, out-of-range enums, all-zero / empty lists, empty metrics, zero offsets), single or mixed signals, random producer options; plus the oversize family (65,536 / 65,600 / 131,073 attribute-bearing spans, log records, metrics, resources, scopes, event- and link-bearing spans) placed first, in the middle and followed by valid batches. Oracle: recover() around every producer call and child-process death => violation; an oversize input must be refused with an error, and if it is accepted instead it must decode to the same telemetry. Non-trivial = history that triggered >=1 schema update or contains a degenerate/oversize batch. Distinct = (script, signals, options, #schema updates bucket).",
		Assumptions: []string{"process-fatal events are attributed through the per-case journal", "sampled inputs"},
		Gates: map[string]map[string]int{
			"quick":    {"producer_calls": 3000, "refused": 8, "dictionary_resets": 20, "dictionary_overflows": 20, "dictionary_upgrades": 20},
			"thorough": {"producer_calls": 60000, "refused": 40, "dictionary_resets": 200, "dictionary_overflows": 200, "dictionary_upgrades": 200},
		},
		Excluded: carveNames,
	})
	e := r.Env
	sigSets := [][]canon.Signal{{canon.Traces}, {canon.Logs}, {canon.Metrics}, {canon.Metrics}, {canon.Traces, canon.Logs, canon.Metrics}}
	r.Layer("any", e.Pick(600, 12000), func(c *vc.Case) {
		g := gen.New(c.R, gen.DAny)
		g.Carve = carve
		g.MaxDepth = 2 + c.R.IntN(4)
		sigs := sigSets[c.R.IntN(len(sigSets))]
		o := RandomOpts(c.R)
		h := GenHistory(c.R, g, sigs, e.Pick(8, 30), e.Pick(15, 40))
		s0 := c.NumViolations()
		noPanicHistory(c, h, o, nil, false)
		_ = s0
		c.FP(h.Script, fmt.Sprint(sigs), o.String(), fmt.Sprint(len(h.Batches)))
		c.Nontrivial(len(h.Batches) >= 2)
		if c.Idx < 32 {
			c.Sample(map[string]any{"script": h.Script, "signals": fmt.Sprint(sigs), "options": o.String(), "batches": len(h.Batches)})
		}
	})
	// degenerate first batches: each optional list/struct column first seen with all-zero values
	r.Layer("degenerate", e.Pick(200, 2000), func(c *vc.Case) {
		g := gen.New(c.R, gen.DAny)
		g.Carve = carve
		g.ZeroBias = 0.97
		h := &History{Script: "degenerate-first"}
		sig := canon.Signal(c.R.IntN(3))
		n := 1 + c.R.IntN(3)
		for i := 0; i < n; i++ {
			h.Batches = append(h.Batches, genBatch(g, sig, 1+c.R.IntN(6)))
		}
		g.ZeroBias = 0.2
		h.Batches = append(h.Batches, genBatch(g, sig, 1+c.R.IntN(6)))
		noPanicHistory(c, h, DefaultOpts(), nil, false)
		c.FP(h.Script, sig.String(), fmt.Sprint(n))
		c.Nontrivial(true)
	})
	// "whichever values repeat, and whatever the stream carried before": cardinality ramps drive every
	// dictionary through upgrade, overflow and reset (ratio below / above the reset threshold)
	r.Layer("dict-ramp", e.Pick(60, 600), func(c *vc.Case) {
		sig := canon.Signal(c.Idx % 3)
		high := (c.Idx/3)%2 == 0
		o := DefaultOpts()
		o.Limit = []string{"8", "8", "16", "32"}[c.R.IntN(4)]
		o.Reset = []float64{0, 0.05, 0.3, 1, 10, -1}[(c.Idx/6)%6]
		o.Zstd = c.R.IntN(2)
		if sig == canon.Traces {
			o.SpanOrder, o.A16, o.A32 = c.R.IntN(8)-1, c.R.IntN(5)-1, c.R.IntN(6)-1
		}
		h := RampHistory(c.R, sig, e.Pick(8, 16)+c.R.IntN(6), 100+c.R.IntN(250), high)
		noPanicHistory(c, h, o, nil, false)
		c.FP(h.Script, sig.String(), o.String())
		c.Nontrivial(true)
		if c.Idx < 12 {
			c.Sample(map[string]any{"script": h.Script, "signal": sig.String(), "options": o.String(), "batches": h.Len()})
		}
	})
	// every dictionary-encodable field of every record type unique per item (own resource and scope included):
	// all dictionary columns of a record cross their index width - or the limit - in the same build, which
	// asks for many schema updates at once; staggered variant: the columns cross one after the other
	r.Layer("wide", e.Pick(18, 90), func(c *vc.Case) {
		sig := canon.Signal(c.Idx % 3)
		o := DefaultOpts()
		o.Limit = []string{"default", "8", "16", "none", "32", "8"}[(c.Idx/3)%6]
		o.Reset = []float64{0, 0.05, 0.3, 1, 10, -1}[c.R.IntN(6)]
		o.Zstd = c.R.IntN(2)
		if sig == canon.Traces {
			o.SpanOrder, o.A16, o.A32 = c.R.IntN(8)-1, c.R.IntN(5)-1, c.R.IntN(6)-1
		}
		var lazy *History
		switch c.R.IntN(3) {
		case 0:
			lazy = WideHistory(sig, 3, 300, 0)
		case 1:
			lazy = WideHistory(sig, 2, 700, 0)
		default:
			lazy = WideHistory(sig, 40, 120, 1)
		}
		h := &History{Script: lazy.Script}
		for k := 0; k < lazy.Len(); k++ {
			h.Batches = append(h.Batches, lazy.At(k))
			lazy.Forget(k)
		}
		noPanicHistory(c, h, o, nil, false)
		c.Count("wide_batches", int64(len(h.Batches)))
		c.FP(h.Script, sig.String(), o.String())
		c.Nontrivial(true)
		if c.Idx < 6 {
			c.Sample(map[string]any{"script": h.Script, "signal": sig.String(), "options": o.String(), "batches": h.Len()})
		}
	})
	// oversize family: kind x size x placement
	sizes := []int{65536, 65600, 131073}
	placements := []string{"first", "after-valid", "between-valid", "twice"}
	nOver := e.Pick(2*numOversizeKinds, numOversizeKinds*len(sizes)*len(placements))
	r.Layer("oversize", nOver, func(c *vc.Case) {
		kind := c.Idx % numOversizeKinds
		size := sizes[(c.Idx/numOversizeKinds)%len(sizes)]
		place := placements[(c.Idx/(numOversizeKinds*len(sizes)))%len(placements)]
		if !e.Thorough() {
			// quick: every kind just above the limit (65,600) and far above it (131,073)
			size = []int{65600, 131073}[(c.Idx/numOversizeKinds)%2]
			place = placements[1+c.Idx%3]
		}
		big, name := oversize(kind, size)
		g := gen.New(c.R, gen.DValid)
		g.Carve = carve
		h := &History{Script: fmt.Sprintf("oversize:%s:%d:%s", name, size, place)}
		must := map[int]bool{}
		switch place {
		case "first":
			h.Batches = []Batch{big, smallValid(g, big.Sig)}
			must[0] = true
		case "after-valid":
			h.Batches = []Batch{smallValid(g, big.Sig), big}
			must[1] = true
		case "between-valid":
			h.Batches = []Batch{smallValid(g, big.Sig), big, smallValid(g, big.Sig), smallValid(g, big.Sig)}
			must[1] = true
		default:
			h.Batches = []Batch{big, copyBatch(big), smallValid(g, big.Sig)}
			must[0], must[1] = true, true
		}
		if name == "spans-plain" {
			must = map[int]bool{} // representable or not, only no-panic + round trip if accepted is asserted
			for k := range h.Batches {
				if h.Batches[k].Items() > 65535 {
					must[k] = true
				}
			}
		}
		noPanicHistory(c, h, DefaultOpts(), must, true)
		c.FP(h.Script)
		c.Nontrivial(true)
		c.Sample(map[string]any{"script": h.Script})
	})
}
