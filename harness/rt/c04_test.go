package rt

import (
	"fmt"
	"github.com/open-telemetry/otel-arrow/pkg/otel/arrow_record"
	"testing"

	"verif/common/canon"
	"verif/common/gen"
	"verif/common/vc"
)

var (
	c04Limits = []string{"none", "8", "16", "32", "64", "default"}
	c04Resets = []float64{0, 0.05, 0.3, 1, 10, -1}
)

// optsFromIndex enumerates the full option product for traces (10,080 combinations).
func optsFromIndex(i int) OptSet {
	o := DefaultOpts()
	o.Limit = c04Limits[i%6]
	i /= 6
	o.Reset = c04Resets[i%6]
	i /= 6
	o.Zstd = i % 2
	i /= 2
	o.SpanOrder = i % 7
	i /= 7
	o.A16 = i % 4
	i /= 4
	o.A32 = i % 5
	return o
}

const c04TraceProduct = 6 * 6 * 2 * 7 * 4 * 5

func TestC04(t *testing.T) {
	r := vc.NewRunner(t, "C04")
	defer r.Close()
	carve, carveNames := carveFor("C04")
	exh := r.Env.Thorough()
	r.Meta(vc.Meta{
		Level:       "exploration",
		Rule:        "case = (producer option set, stream history) decoded by a DEFAULT consumer and compared as canonical multisets. Layers: 'product' = option product limit{none,8,16,32,64,default} x reset{0,.05,.3,1,10,default} x zstd{on,off} x 7 OrderSpanBy x 4 OrderAttrs16By x 5 OrderAttrs32By on short hostile trace histories (thorough: all 10,080 combinations; quick: a PRNG sample), and limit x reset x zstd for logs/metrics; 'ramp' = cardinality ramps steering dictionary columns across 255 / 65,535 / the limit in low-reuse (overflow) and high-reuse (reset) regimes, for the three signals; 'wide' = histories in which every dictionary-encodable field of every record type is unique per item (all columns cross their index width in the same build) and an evolving 70-batch stream in which the columns overflow one after the other, decoded under a memory limit four times the stream's measured need. Non-trivial = >=1 dictionary transition (upgrade/overflow/reset) or a non-default ordering option. Distinct = (options, signal, transitions observed).",
		Assumptions: []string{"32->64-bit index transition not reachable (4e9 distinct values)", "oracle as C01-C03"},
		Gates: map[string]map[string]int{
			"quick":    {"obs.new_field": 1000, "obs.upgrade_8_to_16": 10, "obs.overflow": 10, "obs.reset": 10, "order_options_seen": 16, "evolving_stream_batches": 210},
			"thorough": {"obs.new_field": 50000, "obs.upgrade_8_to_16": 200, "obs.overflow": 200, "obs.reset": 200, "obs.upgrade_16_to_32": 1, "order_options_seen": 16, "evolving_stream_batches": 1050},
		},
		ExhaustiveLayers: map[bool][]string{true: {"product-traces (10,080 option combinations)", "product-logs", "product-metrics"}, false: nil}[exh],
		Excluded:         carveNames,
	})
	e := r.Env
	rt := func(c *vc.Case, h *History, o OptSet, sig canon.Signal, copts ...arrow_record.Option) {
		s := roundTripHistory(c, h, o, "C04", copts...)
		tr := s.Obs.Get("upgrade_8_to_16") + s.Obs.Get("upgrade_16_to_32") + s.Obs.Get("overflow") + s.Obs.Get("reset")
		c.FP(o.String(), sig.String(), fmt.Sprint(tr > 0))
		c.Nontrivial(tr > 0 || o.SpanOrder >= 0 || o.A16 >= 0 || o.A32 >= 0)
		c.Seen("order_options_seen", fmt.Sprintf("span=%d", o.SpanOrder))
		c.Seen("order_options_seen", fmt.Sprintf("a16=%d", o.A16))
		c.Seen("order_options_seen", fmt.Sprintf("a32=%d", o.A32))
		c.Seen("limit_reset_zstd_seen", fmt.Sprintf("%s/%v/%d", o.Limit, o.Reset, o.Zstd))
	}
	nProd := e.Pick(240, c04TraceProduct)
	r.Layer("product-traces", nProd, func(c *vc.Case) {
		var o OptSet
		if e.Thorough() {
			o = optsFromIndex(c.Idx)
		} else {
			o = optsFromIndex(c.R.IntN(c04TraceProduct))
		}
		g := gen.New(c.R, gen.DValid)
		g.Carve = carve
		g.SameAttrBias = []float64{0, 0.3, 0.6}[c.R.IntN(3)]
		h := GenHistory(c.R, g, []canon.Signal{canon.Traces}, 4, 16)
		rt(c, h, o, canon.Traces)
		if c.Idx%97 == 0 {
			c.Sample(map[string]any{"options": o.String(), "script": h.Script, "batches": h.Len()})
		}
	})
	for _, sig := range []canon.Signal{canon.Logs, canon.Metrics} {
		sig := sig
		r.Layer("product-"+sig.String(), 72*e.Pick(1, 6), func(c *vc.Case) {
			o := optsFromIndex(c.Idx % 72)
			o.SpanOrder, o.A16, o.A32 = -1, -1, -1
			g := gen.New(c.R, gen.DValid)
			g.Carve = carve
			h := GenHistory(c.R, g, []canon.Signal{sig}, 4, 16)
			rt(c, h, o, sig)
		})
	}
	// dictionary index-width state machine, 8-bit limit and small ramps (cheap)
	r.Layer("ramp8", e.Pick(36, 360), func(c *vc.Case) {
		sig := canon.Signal(c.Idx % 3)
		o := DefaultOpts()
		o.Limit = []string{"8", "8", "16", "32"}[c.R.IntN(4)]
		o.Reset = c04Resets[c.R.IntN(6)]
		o.Zstd = c.R.IntN(2)
		if sig == canon.Traces {
			o.SpanOrder, o.A16, o.A32 = c.R.IntN(8)-1, c.R.IntN(5)-1, c.R.IntN(6)-1
		}
		h := RampHistory(c.R, sig, 6+c.R.IntN(6), 100+c.R.IntN(250), c.R.IntN(2) == 0)
		rt(c, h, o, sig)
		c.Sample(map[string]any{"options": o.String(), "script": h.Script, "signal": sig.String(), "overflow": c.NumViolations()})
	})
	// every dictionary column of every record type crossing its index width in the SAME build (variants 0, 1:
	// all fields unique from the first batch on, under limits 8 / 16 / default / none), and an EVOLVING stream
	// (variant 2: the fields start carrying unique values one after the other under an 8-bit limit, so that some
	// column overflows - a schema evolution, a replaced IPC stream - every few batches for 70 batches). The
	// evolving stream is decoded by a consumer whose memory limit is four times what such a stream needs
	// (measured on the repaired tree: 1.12 / 0.48 / 0.51 KiB per row and batch for traces / logs / metrics, no
	// growth with the number of evolutions): a valid stream must never be refused for memory.
	r.Layer("wide", e.Pick(9, 45), func(c *vc.Case) {
		sig := canon.Signal(c.Idx % 3)
		variant := (c.Idx / 3) % 3
		o := RandomOpts(c.R)
		if sig != canon.Traces {
			o.SpanOrder, o.A16, o.A32 = -1, -1, -1
		}
		o.Limit = []string{"8", "16", "default", "none"}[c.R.IntN(4)]
		var h *History
		switch variant {
		case 0:
			h = WideHistory(sig, 3, 300, 0)
			rt(c, h, o, sig)
		case 1:
			h = WideHistory(sig, 2, 700, 0)
			rt(c, h, o, sig)
		default:
			n := e.Pick(300, 600)
			o.Limit, o.Reset = "8", -1
			h = WideHistory(sig, 70, n, 1)
			perRow := map[canon.Signal]uint64{canon.Traces: 4608, canon.Logs: 2048, canon.Metrics: 2304}[sig]
			limit := uint64(n) * perRow
			m := NewRecMeter()
			rt(c, h, o, sig, arrow_record.WithMemoryLimit(limit), arrow_record.WithMeterProvider(m))
			c.Count("evolving_stream_batches", 70)
			c.Max("max_consumer_memory_inuse_on_an_evolving_stream_permille_of_its_limit", m.InuseMax*1000/int64(limit))
		}
		c.Sample(map[string]any{"layer": "wide", "script": h.Script, "signal": sig.String(), "options": o.String()})
	})
	// full crossings of 65,535
	r.Layer("ramp16", e.Pick(6, 48), func(c *vc.Case) {
		sig := canon.Signal(c.Idx % 3)
		o := DefaultOpts()
		// threshold 0.3 with unique values => overflow to plain columns; threshold 10 => reset
		o.Reset = []float64{0.3, 10}[(c.Idx/3)%2]
		o.Limit = []string{"16", "default", "32", "64"}[(c.Idx/6)%4]
		high := e.Thorough() && (c.Idx/24)%2 == 1
		nb, n := 4, 22000
		if high {
			n, nb = 30000, 11 // pool grows by n/4 per batch: 67,500 values after nine batches
			o.Reset = []float64{0.3, 1}[(c.Idx/3)%2]
		}
		h := RampHistory(c.R, sig, nb, n, high)
		rt(c, h, o, sig)
		c.Sample(map[string]any{"options": o.String(), "script": h.Script, "signal": sig.String()})
	})
}
