package rt

import (
	"encoding/json"
	"os"
	"path/filepath"
	"sort"

	"verif/common/gen"
)

type knownFinding struct {
	ID       string   `json:"id"`
	Property string   `json:"property"`
	Status   string   `json:"status"`
	Carve    []string `json:"carve"`
}

// openCarves returns the generator carve-outs declared by OPEN known findings. Random
// exploration avoids exactly those input classes; the findings' witness layers keep
// exercising them (DESIGN §3, known findings).
func openCarves() map[string]bool {
	dir := os.Getenv("VERIF_DIR")
	if dir == "" {
		dir = "/verif"
	}
	out := map[string]bool{}
	b, err := os.ReadFile(filepath.Join(dir, "known_findings.json"))
	if err != nil {
		return out
	}
	var doc struct {
		Findings []knownFinding `json:"findings"`
	}
	if json.Unmarshal(b, &doc) != nil {
		return out
	}
	for _, f := range doc.Findings {
		if f.Status == "open" {
			for _, c := range f.Carve {
				out[c] = true
			}
		}
	}
	return out
}

func carveFor(prop string) (gen.Carve, []string) {
	oc := openCarves()
	c := gen.Carve{
		NoNearIdenticalContainers: oc["near-identical-containers"],
		NoZeroPresentHistStats:    oc["zero-present-hist-stats"],
		NoAllZeroFirstList:        oc["all-zero-first-list"],
		NoZeroOffsetWithBuckets:   oc["zero-offset-with-buckets"],
	}
	var names []string
	for k := range oc {
		names = append(names, k)
	}
	sort.Strings(names)
	return c, names
}
