package rt

import (
	"fmt"

	"github.com/open-telemetry/otel-arrow/pkg/otel/arrow_record"

	"runtime"
	"strings"
	"sync"
	"sync/atomic"
	"testing"

	"verif/common/canon"
	"verif/common/gen"
	"verif/common/vc"
)

type c16stream struct {
	h      *History
	o      OptSet
	copts  []arrow_record.Option // consumer options (may be one value shared by every stream of the round)
	hashes []string              // per batch: canon hash of the decoded output (or "E:<err>")
}

// runStream encodes+decodes every batch of st on a fresh producer/consumer pair.
func (st *c16stream) run(active *int64, overlap *int64, yield bool) (out []string, pi *PanicInfo) {
	s := NewStream(st.o, st.copts...)
	defer s.Close()
	for _, b := range st.h.Batches {
		n := atomic.AddInt64(active, 1)
		if n >= 3 {
			atomic.AddInt64(overlap, 1)
		}
		bar, err, p := s.Encode(b)
		if p != nil {
			atomic.AddInt64(active, -1)
			return out, p
		}
		if err != nil {
			atomic.AddInt64(active, -1)
			out = append(out, "E:"+stripNums(err.Error()))
			continue
		}
		if yield {
			runtime.Gosched()
		}
		got, _, err, p := s.Decode(b.Sig, bar)
		atomic.AddInt64(active, -1)
		if p != nil {
			return out, p
		}
		if err != nil {
			out = append(out, "D:"+stripNums(err.Error()))
			continue
		}
		out = append(out, got.Hash())
		if yield {
			runtime.Gosched()
		}
	}
	return out, nil
}

func TestC16(t *testing.T) {
	r := vc.NewRunner(t, "C16")
	defer r.Close()
	carve, carveNames := carveFor("C16")
	r.Meta(vc.Meta{
		Level:           "exploration",
		Rule:            "case = one round: N distinct producer/consumer pairs (different signals, options, histories; in every other round all consumers are created from one option list built once; all inputs and expectations built before any goroutine starts) are first run ALONE, one after the other, recording the canonical hash of every decoded batch, then run CONCURRENTLY, one goroutine each, started on a barrier with Gosched between calls. Oracle: (a) zero race-detector reports with a repository frame (reports are read from the GORACE log files, classified by stack, de-duplicated); (b) every stream's per-batch hash sequence under concurrency equals its sequential one. Non-trivial = round in which calls were observed executing while >=2 other streams were inside the library. Distinct = round fingerprint (stream scripts/options).",
		Assumptions:     []string{"the race detector only reports races on executed, actually overlapping accesses; absence of reports is not race freedom", "child processes run with GOMAXPROCS 16 or 4"},
		RaceIsViolation: true,
		Gates: map[string]map[string]int{
			"quick":    {"calls_overlapping_with_2_other_streams": 500, "streams_run_concurrently": 150},
			"thorough": {"calls_overlapping_with_2_other_streams": 20000, "streams_run_concurrently": 6000},
		},
		Excluded: carveNames,
	})
	e := r.Env
	nStreams := e.Pick(16, 64)
	r.Layer("round", e.Pick(16, 100), func(c *vc.Case) {
		if c.Idx%3 == 2 {
			runtime.GOMAXPROCS(4)
			defer runtime.GOMAXPROCS(runtime.NumCPU())
		}
		// everything is generated before goroutines start (harness race discipline)
		streams := make([]*c16stream, nStreams)
		var fp []string
		for i := range streams {
			g := gen.New(c.R, gen.DValid)
			g.Carve = carve
			sig := canon.Signal(c.R.IntN(3))
			o := RandomOpts(c.R)
			var h *History
			if c.R.IntN(5) == 0 {
				o.Limit = "8"
				h = RampHistory(c.R, sig, 5, 120, c.R.IntN(2) == 0)
			} else {
				h = GenHistory(c.R, g, []canon.Signal{sig}, e.Pick(6, 10), 20)
			}
			streams[i] = &c16stream{h: h, o: o}
			fp = append(fp, h.Script+"/"+o.String())
		}
		// every other round: ONE consumer option list, built once, configures every consumer of the round (an
		// application that builds its options once and creates a consumer per connection). The memory limit in
		// it is far above what any of these small streams needs (64 MiB; they need well under 4 MiB), so it can
		// only matter if consumers built from the same option value share state.
		if c.Idx%2 == 0 {
			shared := []arrow_record.Option{arrow_record.WithMemoryLimit(64 << 20)}
			for _, st := range streams {
				st.copts = shared
			}
			c.Count("rounds_with_one_option_value_shared_by_all_consumers", 1)
		}
		var active, overlap, dummy int64
		for _, st := range streams {
			out, pi := st.run(&dummy, &dummy, false)
			if pi != nil {
				c.Count("sequential_run_panicked(not this property)", 1)
				return
			}
			st.hashes = out
		}
		dummy = 0
		var wg sync.WaitGroup
		start := make(chan struct{})
		results := make([][]string, nStreams)
		panics := make([]*PanicInfo, nStreams)
		for i := range streams {
			wg.Add(1)
			go func(i int) {
				defer wg.Done()
				<-start
				results[i], panics[i] = streams[i].run(&active, &overlap, true)
			}(i)
		}
		close(start)
		wg.Wait()
		for i, st := range streams {
			if panics[i] != nil {
				c.Violation("stream panicked only when run concurrently with other streams: "+panics[i].Signature(), panics[i].Value+"\n"+clip(panics[i].Stack, 2500),
					witness(st.h, -1, st.o, nil))
				continue
			}
			if strings.Join(results[i], "|") != strings.Join(st.hashes, "|") {
				k := 0
				for k < len(results[i]) && k < len(st.hashes) && results[i][k] == st.hashes[k] {
					k++
				}
				c.Violation("stream decodes differently when other streams run concurrently",
					fmt.Sprintf("stream %d (%s, %s): first difference at batch %d: alone=%v concurrent=%v", i, st.h.Script, st.o, k, at(st.hashes, k), at(results[i], k)),
					witness(st.h, k, st.o, nil))
			} else {
				c.Count("streams_identical_to_sequential_run", 1)
			}
			c.Count("batches_compared", int64(len(st.hashes)))
		}
		c.Count("streams_run_concurrently", int64(nStreams))
		c.Count("calls_overlapping_with_2_other_streams", overlap)
		c.FP(strings.Join(fp, ";"))
		c.Nontrivial(overlap > 0)
		if c.Idx < 4 {
			c.Sample(map[string]any{"streams": nStreams, "overlapping_calls": overlap, "first_streams": fp[:3], "gomaxprocs": runtime.GOMAXPROCS(0)})
		}
	})
}

func at(s []string, k int) string {
	if k < len(s) {
		return s[k]
	}
	return "<none>"
}
