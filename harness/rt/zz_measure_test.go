package rt

import (
	"fmt"
	"testing"

	"github.com/open-telemetry/otel-arrow/pkg/otel/arrow_record"
	"verif/common/canon"
)

func TestZZMeasure(t *testing.T) {
	for _, sig := range []canon.Signal{canon.Traces, canon.Logs, canon.Metrics} {
		for _, lim := range []string{"default", "8"} {
			for _, n := range []int{300, 1000} {
				o := DefaultOpts()
				o.Limit = lim
				m := NewRecMeter()
				s := NewStream(o, arrow_record.WithMemoryLimit(1<<30), arrow_record.WithMeterProvider(m))
				h := WideHistory(sig, 70, n, 1)
				var last int64
				maxRec := 0
				for k := 0; k < h.Len(); k++ {
					bar, err, pi := s.Encode(h.At(k))
					if err != nil || pi != nil {
						t.Fatalf("encode %v %v", err, pi)
					}
					sz := 0
					for _, p := range bar.ArrowPayloads {
						sz += len(p.Record)
					}
					if sz > maxRec {
						maxRec = sz
					}
					_, _, err, pi = s.Decode(sig, bar)
					if err != nil || pi != nil {
						t.Fatalf("decode %v %v", err, pi)
					}
					last = m.Inuse
					h.Forget(k)
				}
				fmt.Printf("%v limit=%s n=%d: inuseMax=%d last=%d maxBarBytes=%d updates=%d\n", sig, lim, n, m.InuseMax, last, maxRec, s.Obs.Get("schema_update"))
				s.Close()
			}
		}
	}
}
