package rt

import (
	"fmt"
	"math/rand/v2"

	"go.opentelemetry.io/collector/pdata/pcommon"
	"go.opentelemetry.io/collector/pdata/plog"
	"go.opentelemetry.io/collector/pdata/pmetric"
	"go.opentelemetry.io/collector/pdata/ptrace"

	"verif/common/canon"
	"verif/common/gen"
)

// History is a finite sequence of batches sent through one stream, plus a label describing
// the phase script that produced it (part of the shape fingerprint).
type History struct {
	Script  string
	Batches []Batch

	// Lazy histories (large cardinality ramps) generate batch k on demand, in order, and keep only
	// the batches that have not been forgotten yet: N batches, Gen(k) called once for k = 0..N-1.
	N     int
	Gen   func(k int) Batch
	cache map[int]Batch
	next  int
}

// Len is the number of batches of the history.
func (h *History) Len() int {
	if h.Gen != nil {
		return h.N
	}
	return len(h.Batches)
}

// At returns batch k (lazy histories must be walked in order).
func (h *History) At(k int) Batch {
	if h.Gen == nil {
		return h.Batches[k]
	}
	if h.cache == nil {
		h.cache = map[int]Batch{}
	}
	for h.next <= k {
		h.cache[h.next] = h.Gen(h.next)
		h.next++
	}
	return h.cache[k]
}

// Has reports whether batch k is available without generating anything.
func (h *History) Has(k int) bool {
	if h.Gen == nil {
		return k >= 0 && k < len(h.Batches)
	}
	_, ok := h.cache[k]
	return ok
}

// Forget drops the batches of a lazy history up to and including k.
func (h *History) Forget(k int) {
	if h.Gen == nil {
		return
	}
	for i := range h.cache {
		if i <= k {
			delete(h.cache, i)
		}
	}
}

func genBatch(g *gen.G, sig canon.Signal, n int) Batch {
	switch sig {
	case canon.Traces:
		return TB(g.Traces(n))
	case canon.Logs:
		return LB(g.Logs(n))
	default:
		return MB(g.Metrics(n, nil))
	}
}

func copyBatch(b Batch) Batch {
	switch b.Sig {
	case canon.Traces:
		t := ptrace.NewTraces()
		b.T.CopyTo(t)
		return TB(t)
	case canon.Logs:
		l := plog.NewLogs()
		b.L.CopyTo(l)
		return LB(l)
	default:
		m := pmetric.NewMetrics()
		b.M.CopyTo(m)
		return MB(m)
	}
}

var scripts = []string{"random", "random", "zero-then-nonzero", "nonzero-then-zero", "repeat", "ramp", "singles", "sparse-nonzero", "empty-mix"}

// GenHistory draws a phase script and generates its batches. sigs lists the signals that may
// be interleaved on the stream (one entry = single-signal history).
func GenHistory(r *rand.Rand, g *gen.G, sigs []canon.Signal, maxBatches, maxItems int) *History {
	script := scripts[r.IntN(len(scripts))]
	nb := 1 + r.IntN(maxBatches)
	h := &History{Script: script}
	sigAt := func() canon.Signal { return sigs[r.IntN(len(sigs))] }
	items := func() int {
		switch r.IntN(6) {
		case 0:
			return 0
		case 1:
			return 1
		default:
			return 1 + r.IntN(maxItems)
		}
	}
	switch script {
	case "random":
		for i := 0; i < nb; i++ {
			g.ZeroBias = []float64{0.15, 0.5, 0.85}[r.IntN(3)]
			h.Batches = append(h.Batches, genBatch(g, sigAt(), items()))
		}
	case "zero-then-nonzero":
		k := r.IntN(nb + 1)
		for i := 0; i < nb; i++ {
			if i < k {
				g.ZeroBias = 1
			} else {
				g.ZeroBias = []float64{0, 0.3}[r.IntN(2)]
			}
			h.Batches = append(h.Batches, genBatch(g, sigAt(), 1+r.IntN(maxItems)))
		}
	case "nonzero-then-zero":
		k := r.IntN(nb + 1)
		for i := 0; i < nb; i++ {
			if i < k {
				g.ZeroBias = 0.1
			} else {
				g.ZeroBias = 1
			}
			h.Batches = append(h.Batches, genBatch(g, sigAt(), 1+r.IntN(maxItems)))
		}
	case "repeat":
		g.ZeroBias = 0.4
		b := genBatch(g, sigAt(), 1+r.IntN(maxItems))
		for i := 0; i < nb; i++ {
			h.Batches = append(h.Batches, copyBatch(b))
		}
	case "ramp":
		g.Unique = true
		g.ZeroBias = 0.3
		n := 1
		for i := 0; i < nb; i++ {
			h.Batches = append(h.Batches, genBatch(g, sigAt(), n))
			n = n*2 + 1
			if n > maxItems*2 {
				n = maxItems * 2
			}
		}
		g.Unique = false
	case "singles":
		nb = nb * 2
		for i := 0; i < nb; i++ {
			g.ZeroBias = r.Float64()
			h.Batches = append(h.Batches, genBatch(g, sigAt(), 1))
		}
	case "sparse-nonzero":
		for i := 0; i < nb; i++ {
			g.ZeroBias = 0.93
			h.Batches = append(h.Batches, genBatch(g, sigAt(), 1+r.IntN(maxItems)))
		}
	case "empty-mix":
		for i := 0; i < nb; i++ {
			g.ZeroBias = 0.5
			n := 0
			if r.IntN(2) == 0 {
				n = items()
			}
			h.Batches = append(h.Batches, genBatch(g, sigAt(), n))
		}
	}
	return h
}

// ------------------------------------------------------------------ adversarial templates

type confusable struct {
	name string
	a, b func(m pcommon.Map)
}

// confusables are attribute maps that are different OTLP values but that a textual identity
// built from "key:value" fragments may conflate.
var confusables = []confusable{
	{"int-vs-str", func(m pcommon.Map) { m.PutInt("k", 1) }, func(m pcommon.Map) { m.PutStr("k", "1") }},
	{"bool-vs-str", func(m pcommon.Map) { m.PutBool("k", true) }, func(m pcommon.Map) { m.PutStr("k", "true") }},
	{"double-vs-str", func(m pcommon.Map) { m.PutDouble("k", 1) }, func(m pcommon.Map) { m.PutStr("k", "1E+00") }},
	{"bytes-vs-str", func(m pcommon.Map) { m.PutEmptyBytes("k").FromRaw([]byte{0xab}) }, func(m pcommon.Map) { m.PutStr("k", "ab") }},
	{"slice-vs-str", func(m pcommon.Map) { m.PutEmptySlice("k").AppendEmpty().SetStr("a") }, func(m pcommon.Map) { m.PutStr("k", "[a]") }},
	{"map-vs-str", func(m pcommon.Map) { m.PutEmptyMap("k").PutInt("a", 1) }, func(m pcommon.Map) { m.PutStr("k", "{a:1}") }},
	{"delimiter-shift", func(m pcommon.Map) { m.PutStr("a", "x,b:y") }, func(m pcommon.Map) { m.PutStr("a", "x"); m.PutStr("b", "y") }},
	{"empty-str-vs-unset", func(m pcommon.Map) { m.PutStr("k", "") }, func(m pcommon.Map) { m.PutEmpty("k") }},
	{"int-vs-double", func(m pcommon.Map) { m.PutInt("k", 2) }, func(m pcommon.Map) { m.PutDouble("k", 2) }},
	{"nested-types", func(m pcommon.Map) { m.PutEmptySlice("k").AppendEmpty().SetInt(1) }, func(m pcommon.Map) { m.PutEmptySlice("k").AppendEmpty().SetStr("1") }},
	{"slice-split", func(m pcommon.Map) { m.PutEmptySlice("k").AppendEmpty().SetStr("a,b") }, func(m pcommon.Map) {
		s := m.PutEmptySlice("k")
		s.AppendEmpty().SetStr("a")
		s.AppendEmpty().SetStr("b")
	}},
}

// NumTemplates is the number of adversarial container templates per signal.
func NumTemplates() int { return len(confusables)*2 + 4 }

// TemplateHistory instantiates template number ti for a signal: two (or three) containers
// that differ only in a confusable way, each owning distinguishable items, over 1-3 batches.
func TemplateHistory(r *rand.Rand, sig canon.Signal, ti int) *History {
	type cont struct {
		res    pcommon.Resource
		resURL string
		sco    pcommon.InstrumentationScope
		scoURL string
	}
	mk := func() cont {
		return cont{res: pcommon.NewResource(), sco: pcommon.NewInstrumentationScope()}
	}
	a, b := mk(), mk()
	name := ""
	nc := len(confusables)
	switch {
	case ti < nc:
		name = "resource/" + confusables[ti].name
		confusables[ti].a(a.res.Attributes())
		confusables[ti].b(b.res.Attributes())
	case ti < 2*nc:
		name = "scope/" + confusables[ti-nc].name
		a.sco.SetName("s")
		b.sco.SetName("s")
		confusables[ti-nc].a(a.sco.Attributes())
		confusables[ti-nc].b(b.sco.Attributes())
	case ti == 2*nc:
		name = "scope/name-version-shift"
		a.sco.SetName("a|version:b")
		a.sco.SetVersion("c")
		b.sco.SetName("a")
		b.sco.SetVersion("b|version:c")
	case ti == 2*nc+1:
		name = "resource/schema-url-shift"
		a.res.Attributes().PutStr("a", "x}|5|u")
		a.resURL = ""
		b.res.Attributes().PutStr("a", "x")
		b.res.SetDroppedAttributesCount(5)
		b.resURL = "u}|0|"
	case ti == 2*nc+2:
		name = "scope/schema-url-only"
		a.sco.SetName("s")
		b.sco.SetName("s")
		a.scoURL = "https://schema/1"
		b.scoURL = "https://schema/2"
	default:
		name = "same-scope-under-two-resources"
		a.res.Attributes().PutStr("host", "h1")
		b.res.Attributes().PutStr("host", "h2")
		a.sco.SetName("lib")
		b.sco.SetName("lib")
	}
	h := &History{Script: "template:" + name}
	nb := 1 + r.IntN(3)
	uid := 0
	for k := 0; k < nb; k++ {
		conts := []cont{a, b}
		if r.IntN(2) == 0 {
			conts = []cont{b, a}
		}
		if r.IntN(3) == 0 {
			conts = append(conts, conts[0]) // duplicate container, non-adjacent
		}
		switch sig {
		case canon.Traces:
			td := ptrace.NewTraces()
			for ci, c := range conts {
				rs := td.ResourceSpans().AppendEmpty()
				c.res.CopyTo(rs.Resource())
				rs.SetSchemaUrl(c.resURL)
				ss := rs.ScopeSpans().AppendEmpty()
				c.sco.CopyTo(ss.Scope())
				ss.SetSchemaUrl(c.scoURL)
				n := 1 + r.IntN(3)
				for i := 0; i < n; i++ {
					uid++
					s := ss.Spans().AppendEmpty()
					s.SetName(fmt.Sprintf("span-%d-of-container-%d", uid, ci))
					s.SetSpanID(pcommon.SpanID{byte(uid), 1})
					s.SetTraceID(pcommon.TraceID{byte(r.IntN(2)), 9})
					if r.IntN(2) == 0 {
						s.Attributes().PutInt("i", int64(uid))
					}
				}
			}
			h.Batches = append(h.Batches, TB(td))
		case canon.Logs:
			ld := plog.NewLogs()
			for ci, c := range conts {
				rl := ld.ResourceLogs().AppendEmpty()
				c.res.CopyTo(rl.Resource())
				rl.SetSchemaUrl(c.resURL)
				sl := rl.ScopeLogs().AppendEmpty()
				c.sco.CopyTo(sl.Scope())
				sl.SetSchemaUrl(c.scoURL)
				n := 1 + r.IntN(3)
				for i := 0; i < n; i++ {
					uid++
					l := sl.LogRecords().AppendEmpty()
					l.Body().SetStr(fmt.Sprintf("log-%d-of-container-%d", uid, ci))
					l.SetTraceID(pcommon.TraceID{byte(r.IntN(2)), 9})
					if r.IntN(2) == 0 {
						l.Attributes().PutInt("i", int64(uid))
					}
				}
			}
			h.Batches = append(h.Batches, LB(ld))
		default:
			md := pmetric.NewMetrics()
			for ci, c := range conts {
				rm := md.ResourceMetrics().AppendEmpty()
				c.res.CopyTo(rm.Resource())
				rm.SetSchemaUrl(c.resURL)
				sm := rm.ScopeMetrics().AppendEmpty()
				c.sco.CopyTo(sm.Scope())
				sm.SetSchemaUrl(c.scoURL)
				n := 1 + r.IntN(3)
				for i := 0; i < n; i++ {
					uid++
					m := sm.Metrics().AppendEmpty()
					m.SetName(fmt.Sprintf("metric-%d-of-container-%d", uid, ci))
					dp := m.SetEmptyGauge().DataPoints().AppendEmpty()
					dp.SetIntValue(int64(uid))
					if r.IntN(2) == 0 {
						dp.Attributes().PutInt("i", int64(uid))
					}
				}
			}
			h.Batches = append(h.Batches, MB(md))
		}
	}
	return h
}

// RampHistory builds a cardinality ramp: nb batches of n items whose dictionary-encoded
// columns (names, attribute keys/values, bodies, ids, units) carry fresh values (low reuse:
// every value unique) or values drawn from a slowly growing pool (high reuse).
func RampHistory(r *rand.Rand, sig canon.Signal, nb, n int, highReuse bool) *History {
	h := &History{Script: fmt.Sprintf("ramp(reuse=%v)", highReuse)}
	ctr := 0
	// pool grows by ~n/8 per batch, each value reused ~8 times; the large ramps (which must cross
	// 65,535 entries) grow by n/4 so that the crossing costs half the items (new/total stays < 0.3)
	reuse := 8
	if n >= 20000 {
		reuse = 4
	}
	val := func() int {
		if highReuse {
			if r.IntN(reuse) == 0 {
				ctr++
			}
			if ctr == 0 {
				return 0
			}
			return ctr - r.IntN(min(ctr, 40))
		}
		ctr++
		return ctr
	}
	gen := func(k int) Batch {
		switch sig {
		case canon.Traces:
			td := ptrace.NewTraces()
			rs := td.ResourceSpans().AppendEmpty()
			rs.Resource().Attributes().PutStr("host", fmt.Sprintf("h%d", k%3))
			ss := rs.ScopeSpans().AppendEmpty()
			ss.Scope().SetName("lib")
			for i := 0; i < n; i++ {
				v := val()
				s := ss.Spans().AppendEmpty()
				s.SetName(fmt.Sprintf("name-%d", v))
				s.SetTraceID(pcommon.TraceID{byte(v), byte(v >> 8), byte(v >> 16), 1})
				s.SetSpanID(pcommon.SpanID{byte(v), byte(v >> 8), byte(v >> 16), 2})
				s.SetStartTimestamp(pcommon.Timestamp(1_700_000_000_000_000_000 + uint64(v)*1000))
				s.SetEndTimestamp(pcommon.Timestamp(1_700_000_000_000_000_000 + uint64(v)*1000 + uint64(v%7)))
				s.TraceState().FromRaw(fmt.Sprintf("ts=%d", v))
				s.Attributes().PutStr(fmt.Sprintf("k%d", v%300), fmt.Sprintf("v%d", v))
				s.Attributes().PutInt("n", int64(v))
				s.Attributes().PutEmptyBytes("b").FromRaw([]byte(fmt.Sprintf("b%d", v)))
				if i%3 == 0 {
					ev := s.Events().AppendEmpty()
					ev.SetName(fmt.Sprintf("ev-%d", v))
					ev.Attributes().PutStr("e", fmt.Sprintf("ev%d", v))
					l := s.Links().AppendEmpty()
					l.SetTraceID(pcommon.TraceID{byte(v), byte(v >> 8), 7})
					l.SetSpanID(pcommon.SpanID{byte(v), byte(v >> 8), 8})
					l.Attributes().PutInt("l", int64(v))
				}
				s.Status().SetMessage(fmt.Sprintf("msg-%d", v))
			}
			return TB(td)
		case canon.Logs:
			ld := plog.NewLogs()
			rl := ld.ResourceLogs().AppendEmpty()
			rl.Resource().Attributes().PutStr("host", fmt.Sprintf("h%d", k%3))
			sl := rl.ScopeLogs().AppendEmpty()
			sl.Scope().SetName("lib")
			for i := 0; i < n; i++ {
				v := val()
				l := sl.LogRecords().AppendEmpty()
				switch i % 4 {
				case 0:
					l.Body().SetStr(fmt.Sprintf("free text body %d", v))
				case 1:
					l.Body().SetInt(int64(v))
				case 2:
					l.Body().SetEmptyBytes().FromRaw([]byte(fmt.Sprintf("bytes-%d", v)))
				default:
					l.Body().SetEmptyMap().PutInt("m", int64(v))
				}
				l.SetSeverityText(fmt.Sprintf("sev-%d", v))
				l.SetSeverityNumber(plog.SeverityNumber(v % 25))
				l.SetTraceID(pcommon.TraceID{byte(v), byte(v >> 8), byte(v >> 16), 1})
				l.SetSpanID(pcommon.SpanID{byte(v), byte(v >> 8), byte(v >> 16), 2})
				l.SetTimestamp(pcommon.Timestamp(1_700_000_000_000_000_000 + uint64(v)))
				l.Attributes().PutStr(fmt.Sprintf("k%d", v%300), fmt.Sprintf("v%d", v))
				l.Attributes().PutInt("n", int64(v))
			}
			return LB(ld)
		default:
			md := pmetric.NewMetrics()
			rm := md.ResourceMetrics().AppendEmpty()
			rm.Resource().Attributes().PutStr("host", fmt.Sprintf("h%d", k%3))
			sm := rm.ScopeMetrics().AppendEmpty()
			sm.Scope().SetName("lib")
			for i := 0; i < n; i++ {
				v := val()
				m := sm.Metrics().AppendEmpty()
				m.SetName(fmt.Sprintf("metric-%d", v))
				m.SetDescription(fmt.Sprintf("desc-%d", v))
				m.SetUnit(fmt.Sprintf("u%d", v))
				switch i % 3 {
				case 0:
					dp := m.SetEmptyGauge().DataPoints().AppendEmpty()
					dp.SetIntValue(int64(v))
					dp.Attributes().PutStr(fmt.Sprintf("k%d", v%300), fmt.Sprintf("v%d", v))
					ex := dp.Exemplars().AppendEmpty()
					ex.SetTraceID(pcommon.TraceID{byte(v), byte(v >> 8), 3})
					ex.SetSpanID(pcommon.SpanID{byte(v), byte(v >> 8), 4})
					ex.FilteredAttributes().PutStr("x", fmt.Sprintf("x%d", v))
				case 1:
					s := m.SetEmptySum()
					s.SetAggregationTemporality(pmetric.AggregationTemporality(1 + v%2))
					dp := s.DataPoints().AppendEmpty()
					dp.SetDoubleValue(float64(v))
					dp.Attributes().PutInt("n", int64(v))
				default:
					dp := m.SetEmptyHistogram().DataPoints().AppendEmpty()
					dp.SetCount(uint64(v))
					dp.SetSum(float64(v))
					dp.BucketCounts().FromRaw([]uint64{uint64(v), 1})
					dp.ExplicitBounds().FromRaw([]float64{float64(v)})
					dp.Attributes().PutStr("s", fmt.Sprintf("v%d", v))
				}
			}
			return MB(md)
		}
	}
	if nb*n <= 40000 {
		// small ramps are materialised (several engines index h.Batches directly)
		for k := 0; k < nb; k++ {
			h.Batches = append(h.Batches, gen(k))
		}
		return h
	}
	h.N, h.Gen = nb, gen
	return h
}

// WideHistory builds nb batches of n items in which EVERY dictionary-encodable field of EVERY record type
// carries a value unique to the item (own resource and scope per item included): the first batch pushes all
// dictionary columns of a record across their index width in the same build (many schema-update requests at
// once), and under a small dictionary limit all of them overflow together. With stagger > 0, field number j
// stays constant until batch j*stagger and only then starts carrying unique values, so that the columns cross
// one after the other: one schema evolution (a replaced IPC stream) every few batches, for dozens of batches.
func WideHistory(sig canon.Signal, nb, n, stagger int) *History {
	return WideHistoryOpt(sig, nb, n, stagger, false)
}

// WideHistoryOpt: with absentFirst, the optional string children of the nested structs (resource schema URL,
// scope name / version / schema URL, status message, trace state, severity text, metric description / unit)
// are ABSENT (empty, so that their column does not exist yet) until their field becomes active in a staggered
// history, instead of carrying a constant: the dictionary column appears in an already established struct.
func WideHistoryOpt(sig canon.Signal, nb, n, stagger int, absentFirst bool) *History {
	h := &History{Script: fmt.Sprintf("wide(n=%d,stagger=%d,absentFirst=%v)", n, stagger, absentFirst), N: nb}
	if !absentFirst {
		h.Script = fmt.Sprintf("wide(n=%d,stagger=%d)", n, stagger)
	}
	ostr := func(format string, v int) string {
		if absentFirst && v == 0 {
			return ""
		}
		return fmt.Sprintf(format, v)
	}
	h.Gen = func(k int) Batch {
		fld := 0
		// u returns the unique value for the next field (or 0 while the field is not yet active)
		mk := func(v int) func() int {
			fld = 0
			return func() int {
				j := fld
				fld++
				if stagger > 0 && k < j*stagger {
					return 0
				}
				return v
			}
		}
		res := func(r pcommon.Resource, u func() int) string {
			r.Attributes().PutStr("host", fmt.Sprintf("h%d", u()))
			r.SetDroppedAttributesCount(uint32(u()))
			return ostr("https://r/%d", u())
		}
		sco := func(s pcommon.InstrumentationScope, u func() int) string {
			s.SetName(ostr("lib-%d", u()))
			s.SetVersion(ostr("v%d", u()))
			s.Attributes().PutInt("s", int64(u()))
			return ostr("https://s/%d", u())
		}
		attrs := func(m pcommon.Map, u func() int) {
			m.PutStr(fmt.Sprintf("k%d", u()%300), fmt.Sprintf("v%d", u()))
			m.PutInt("n", int64(u()))
			m.PutDouble("d", float64(u())+0.5)
			m.PutEmptyBytes("b").FromRaw([]byte(fmt.Sprintf("b%d", u())))
			m.PutEmptyMap("m").PutInt("x", int64(u()))
		}
		base := uint64(1_700_000_000_000_000_000)
		switch sig {
		case canon.Traces:
			td := ptrace.NewTraces()
			for i := 0; i < n; i++ {
				v := k*n + i + 1
				u := mk(v)
				rs := td.ResourceSpans().AppendEmpty()
				rs.SetSchemaUrl(res(rs.Resource(), u))
				ss := rs.ScopeSpans().AppendEmpty()
				ss.SetSchemaUrl(sco(ss.Scope(), u))
				s := ss.Spans().AppendEmpty()
				s.SetName(fmt.Sprintf("name-%d", u()))
				x := u()
				s.SetTraceID(pcommon.TraceID{byte(x), byte(x >> 8), byte(x >> 16), 1})
				x = u()
				s.SetSpanID(pcommon.SpanID{byte(x), byte(x >> 8), byte(x >> 16), 2})
				x = u()
				s.SetParentSpanID(pcommon.SpanID{byte(x), byte(x >> 8), byte(x >> 16), 3})
				s.TraceState().FromRaw(ostr("ts=%d", u()))
				s.SetKind(ptrace.SpanKind(u() % 6))
				s.SetStartTimestamp(pcommon.Timestamp(base + uint64(u())*1000))
				s.SetEndTimestamp(s.StartTimestamp() + pcommon.Timestamp(u()*13))
				s.SetDroppedAttributesCount(uint32(u()))
				s.SetDroppedEventsCount(uint32(u()))
				s.SetDroppedLinksCount(uint32(u()))
				s.Status().SetCode(ptrace.StatusCode(u() % 3))
				s.Status().SetMessage(ostr("msg-%d", u()))
				attrs(s.Attributes(), u)
				ev := s.Events().AppendEmpty()
				ev.SetName(fmt.Sprintf("ev-%d", u()))
				ev.SetTimestamp(pcommon.Timestamp(base + uint64(u())))
				ev.SetDroppedAttributesCount(uint32(u()))
				attrs(ev.Attributes(), u)
				l := s.Links().AppendEmpty()
				x = u()
				l.SetTraceID(pcommon.TraceID{byte(x), byte(x >> 8), byte(x >> 16), 7})
				x = u()
				l.SetSpanID(pcommon.SpanID{byte(x), byte(x >> 8), byte(x >> 16), 8})
				l.TraceState().FromRaw(ostr("lts=%d", u()))
				l.SetDroppedAttributesCount(uint32(u()))
				attrs(l.Attributes(), u)
			}
			return TB(td)
		case canon.Logs:
			ld := plog.NewLogs()
			for i := 0; i < n; i++ {
				v := k*n + i + 1
				u := mk(v)
				rl := ld.ResourceLogs().AppendEmpty()
				rl.SetSchemaUrl(res(rl.Resource(), u))
				sl := rl.ScopeLogs().AppendEmpty()
				sl.SetSchemaUrl(sco(sl.Scope(), u))
				l := sl.LogRecords().AppendEmpty()
				switch i % 4 {
				case 0:
					l.Body().SetStr(fmt.Sprintf("free text body %d", u()))
				case 1:
					l.Body().SetInt(int64(u()))
				case 2:
					l.Body().SetEmptyBytes().FromRaw([]byte(fmt.Sprintf("bytes-%d", u())))
				default:
					l.Body().SetEmptyMap().PutInt("m", int64(u()))
				}
				l.SetSeverityText(ostr("sev-%d", u()))
				l.SetSeverityNumber(plog.SeverityNumber(u() % 25))
				x := u()
				l.SetTraceID(pcommon.TraceID{byte(x), byte(x >> 8), byte(x >> 16), 1})
				x = u()
				l.SetSpanID(pcommon.SpanID{byte(x), byte(x >> 8), byte(x >> 16), 2})
				l.SetTimestamp(pcommon.Timestamp(base + uint64(u())))
				l.SetObservedTimestamp(pcommon.Timestamp(base + uint64(u())*3))
				l.SetFlags(plog.LogRecordFlags(u()))
				l.SetDroppedAttributesCount(uint32(u()))
				attrs(l.Attributes(), u)
			}
			return LB(ld)
		default:
			md := pmetric.NewMetrics()
			for i := 0; i < n; i++ {
				v := k*n + i + 1
				u := mk(v)
				rm := md.ResourceMetrics().AppendEmpty()
				rm.SetSchemaUrl(res(rm.Resource(), u))
				sm := rm.ScopeMetrics().AppendEmpty()
				sm.SetSchemaUrl(sco(sm.Scope(), u))
				m := sm.Metrics().AppendEmpty()
				m.SetName(fmt.Sprintf("metric-%d", u()))
				m.SetDescription(ostr("desc-%d", u()))
				m.SetUnit(ostr("u%d", u()))
				ex := func(es pmetric.ExemplarSlice) {
					e := es.AppendEmpty()
					x := u()
					e.SetTraceID(pcommon.TraceID{byte(x), byte(x >> 8), byte(x >> 16), 3})
					x = u()
					e.SetSpanID(pcommon.SpanID{byte(x), byte(x >> 8), byte(x >> 16), 4})
					e.SetTimestamp(pcommon.Timestamp(base + uint64(u())))
					e.SetIntValue(int64(u()))
					e.FilteredAttributes().PutStr("x", fmt.Sprintf("x%d", u()))
				}
				st, ts := pcommon.Timestamp(base+uint64(u())), pcommon.Timestamp(base+uint64(u())*7)
				fl := pmetric.DefaultDataPointFlags
				if u()%2 == 1 {
					fl = fl.WithNoRecordedValue(true)
				}
				switch i % 5 {
				case 0:
					dp := m.SetEmptyGauge().DataPoints().AppendEmpty()
					dp.SetStartTimestamp(st)
					dp.SetTimestamp(ts)
					dp.SetFlags(fl)
					dp.SetIntValue(int64(u()))
					attrs(dp.Attributes(), u)
					ex(dp.Exemplars())
				case 1:
					s := m.SetEmptySum()
					s.SetAggregationTemporality(pmetric.AggregationTemporality(1 + u()%2))
					s.SetIsMonotonic(u()%2 == 0)
					dp := s.DataPoints().AppendEmpty()
					dp.SetStartTimestamp(st)
					dp.SetTimestamp(ts)
					dp.SetFlags(fl)
					dp.SetDoubleValue(float64(u()) + 0.25)
					attrs(dp.Attributes(), u)
					ex(dp.Exemplars())
				case 2:
					hh := m.SetEmptyHistogram()
					hh.SetAggregationTemporality(pmetric.AggregationTemporality(1 + u()%2))
					dp := hh.DataPoints().AppendEmpty()
					dp.SetStartTimestamp(st)
					dp.SetTimestamp(ts)
					dp.SetFlags(fl)
					dp.SetCount(uint64(u()))
					dp.SetSum(float64(u()))
					dp.SetMin(float64(u()) - 1)
					dp.SetMax(float64(u()) + 1)
					dp.BucketCounts().FromRaw([]uint64{uint64(u()), 1})
					dp.ExplicitBounds().FromRaw([]float64{float64(u())})
					attrs(dp.Attributes(), u)
					ex(dp.Exemplars())
				case 3:
					hh := m.SetEmptyExponentialHistogram()
					hh.SetAggregationTemporality(pmetric.AggregationTemporality(1 + u()%2))
					dp := hh.DataPoints().AppendEmpty()
					dp.SetStartTimestamp(st)
					dp.SetTimestamp(ts)
					dp.SetFlags(fl)
					dp.SetCount(uint64(u()))
					dp.SetSum(float64(u()))
					dp.SetScale(int32(u() % 10))
					dp.SetZeroCount(uint64(u()))
					dp.Positive().SetOffset(int32(u()))
					dp.Positive().BucketCounts().FromRaw([]uint64{uint64(u()), 2})
					dp.Negative().SetOffset(int32(u()))
					dp.Negative().BucketCounts().FromRaw([]uint64{uint64(u())})
					attrs(dp.Attributes(), u)
					ex(dp.Exemplars())
				default:
					dp := m.SetEmptySummary().DataPoints().AppendEmpty()
					dp.SetStartTimestamp(st)
					dp.SetTimestamp(ts)
					dp.SetFlags(fl)
					dp.SetCount(uint64(u()))
					dp.SetSum(float64(u()))
					q := dp.QuantileValues().AppendEmpty()
					q.SetQuantile(0.5)
					q.SetValue(float64(u()))
					attrs(dp.Attributes(), u)
				}
			}
			return MB(md)
		}
	}
	return h
}
