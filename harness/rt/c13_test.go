package rt

import (
	"fmt"
	"testing"

	"verif/common/canon"
	"verif/common/gen"
	"verif/common/vc"
)

func TestC13(t *testing.T) {
	r := vc.NewRunner(t, "C13")
	defer r.Close()
	carve, carveNames := carveFor("C13")
	r.Meta(vc.Meta{
		Level:       "exploration",
		Rule:        "case = one stream history with unbounded-cardinality columns (unique names, ids, bodies, attribute values, units) fed batch after batch under a dictionary limit (none / 8 / 16 / default / 32) and a reset threshold, in the low-reuse (overflow) and high-reuse (reset) regimes; an independent Arrow reader decodes every payload and every dictionary-typed column (recursive walk) must hold <= min(limit, 2^index-bits) entries; with dictionaries disabled no dictionary type may occur. Non-trivial = >=1 overflow or reset observed in the history. Distinct = (signal, limit, threshold, regime, #overflow, #reset buckets).",
		Assumptions: []string{"'arbitrarily long' is restated as: several overflow/reset cycles per limit; the 32->64 bit transition (4e9 values) is out of reach", "limit is taken from the options the harness passed, never from producer internals"},
		Gates: map[string]map[string]int{
			"quick":    {"obs.overflow": 20, "obs.reset": 20, "max_dict_len.limit8": 230, "max_dict_len.limit16": 58982, "obs.upgrade_8_to_16": 5},
			"thorough": {"obs.overflow": 200, "obs.reset": 200, "max_dict_len.limit8": 250, "max_dict_len.limit16": 60000, "max_dict_len.limit32": 65600, "obs.upgrade_16_to_32": 1},
		},
		Excluded: carveNames,
	})
	e := r.Env
	run := func(c *vc.Case, h *History, o OptSet, sig string, regime string) {
		fm, s := frameHistory(c, h, o, "C13")
		ov, rs := s.Obs.Get("overflow"), s.Obs.Get("reset")
		c.Max("max_dict_len.limit"+o.Limit, fm.MaxDictLen)
		for b, v := range fm.MaxDictLenByBits {
			c.Max(fmt.Sprintf("max_dict_len.index%dbit", b), v)
		}
		bucket := func(n int64) string {
			switch {
			case n == 0:
				return "0"
			case n < 3:
				return "1-2"
			default:
				return "3+"
			}
		}
		c.FP(sig, o.Limit, fmt.Sprint(o.Reset), regime, bucket(ov), bucket(rs), h.Script)
		c.Nontrivial(ov > 0 || rs > 0)
		c.Sample(map[string]any{"signal": sig, "options": o.String(), "script": h.Script, "batches": h.Len(), "overflows": ov, "resets": rs,
			"max_dictionary_len": fm.MaxDictLen, "limit": limitStr(o.LimitValue())})
	}
	// 8-bit limit: many cycles are cheap
	r.Layer("limit8", e.Pick(36, 360), func(c *vc.Case) {
		sig := canon.Signal(c.Idx % 3)
		high := (c.Idx/3)%2 == 0
		o := DefaultOpts()
		o.Limit = "8"
		o.Reset = []float64{0, 0.05, 0.3, 1, 10, -1}[(c.Idx/6)%6]
		o.Zstd = c.R.IntN(2)
		h := RampHistory(c.R, sig, e.Pick(10, 30), 200+c.R.IntN(200), high)
		run(c, h, o, sig.String(), fmt.Sprint(high))
	})
	// 16-bit limit (explicit and default): at least one full crossing of 65,535 per case
	r.Layer("limit16", e.Pick(6, 48), func(c *vc.Case) {
		sig := canon.Signal(c.Idx % 3)
		o := DefaultOpts()
		// threshold 0.3 with unique values => overflow to plain columns; threshold 10 => reset
		o.Limit = []string{"16", "default"}[(c.Idx/3)%2]
		o.Reset = []float64{0.3, 10}[(c.Idx/6+c.Idx/3)%2]
		high := e.Thorough() && (c.Idx/12)%2 == 1
		nb, n := e.Pick(4, 10), 21000 // three batches reach 63,000 entries (96 % of the limit), the fourth crosses 65,535
		if o.Limit == "default" {
			// the DEFAULT limit is part of the property (65,535): run long enough that a dictionary which
			// was merely widened and restarted at the crossing would pass 65,535 entries again
			nb = e.Pick(8, 12)
		}
		if high {
			n, nb = 30000, 12 // pool grows by n/4 per batch: 67,500 values after nine batches
			o.Reset = []float64{0.3, 1}[(c.Idx/3)%2]
		}
		h := RampHistory(c.R, sig, nb, n, high)
		run(c, h, o, sig.String(), fmt.Sprint(high))
	})
	// every dictionary-encodable field of every record type unique per item: ALL dictionary columns (nested
	// resource / scope / status columns and the four attribute tables included) reach the limit, at once or -
	// staggered - one after the other
	r.Layer("wide", e.Pick(9, 45), func(c *vc.Case) {
		sig := canon.Signal(c.Idx % 3)
		o := DefaultOpts()
		o.Limit = []string{"8", "none", "16", "8", "default"}[(c.Idx/3)%5]
		o.Reset = []float64{0, 0.05, 0.3, 1, 10, -1}[c.R.IntN(6)]
		o.Zstd = c.R.IntN(2)
		var h *History
		switch (c.Idx / 3) % 3 {
		case 0:
			h = WideHistory(sig, 4, 300, 0)
		case 1:
			h = WideHistory(sig, 3, 700, 0)
		default:
			// every other staggered case: the nested optional strings are absent until they become active
			h = WideHistoryOpt(sig, 50, 120, 1, c.Idx%2 == 0)
		}
		run(c, h, o, sig.String(), "wide")
	})
	// dictionaries disabled: no dictionary type anywhere
	r.Layer("none", e.Pick(30, 300), func(c *vc.Case) {
		g := gen.New(c.R, gen.DValid)
		g.Carve = carve
		sig := canon.Signal(c.Idx % 3)
		o := DefaultOpts()
		o.Limit = "none"
		o.Reset = []float64{-1, 0, 1}[c.R.IntN(3)]
		h := GenHistory(c.R, g, []canon.Signal{sig}, 6, 30)
		if c.Idx%5 == 0 {
			h = RampHistory(c.R, sig, 4, 300, false)
		}
		run(c, h, o, sig.String(), "none")
	})
	// random hostile histories under small limits
	r.Layer("mixed", e.Pick(120, 2400), func(c *vc.Case) {
		g := gen.New(c.R, gen.DValid)
		g.Carve = carve
		sigs := []canon.Signal{canon.Signal(c.R.IntN(3))}
		if c.R.IntN(3) == 0 {
			sigs = []canon.Signal{canon.Traces, canon.Logs, canon.Metrics}
		}
		o := RandomOpts(c.R)
		o.SpanOrder, o.A16, o.A32 = -1, -1, -1
		if c.R.IntN(2) == 0 {
			o.Limit = "8"
		}
		h := GenHistory(c.R, g, sigs, e.Pick(10, 40), 40)
		run(c, h, o, fmt.Sprint(sigs), "random")
	})
	if e.Thorough() {
		// limit 32: a Dictionary16 column crossing 65,535 must widen, not overflow
		r.Layer("limit32", 6, func(c *vc.Case) {
			sig := canon.Signal(c.Idx % 3)
			o := DefaultOpts()
			o.Limit = []string{"32", "64"}[(c.Idx/3)%2]
			// the 16->32 upgrade at the 4th batch starts fresh dictionaries; five more batches then grow
			// one dictionary past 65,535 entries on the 32-bit index
			h := RampHistory(c.R, sig, 9, 18000, false)
			run(c, h, o, sig.String(), "false")
		})
	}
}
