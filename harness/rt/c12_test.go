package rt

import (
	"errors"
	"fmt"
	"testing"

	acommon "github.com/open-telemetry/otel-arrow/pkg/otel/common/arrow"

	colarspb "github.com/open-telemetry/otel-arrow/api/experimental/arrow/v1"

	"verif/common/canon"
	"verif/common/gen"
	"verif/common/vc"
)

// frameHistory sends a (possibly mixed-signal) history through one producer with the frame /
// dictionary monitor attached. Findings of property `prop` are violations; the others are
// only counted (they belong to their own check).
func frameHistory(c *vc.Case, h *History, o OptSet, prop string) (*FrameMon, *Stream) {
	return frameHistoryF(c, h, o, prop, nil)
}

// frameHistoryF: failFirstWrite(k) makes the FIRST IPC write of batch k's Produce call fail (verif hook
// `ipc-write`): nothing of that batch has been written to any sub-stream yet, so the producer's streams
// stay exactly where they were and the caller may go on using it; the failed call emits no batch.
func frameHistoryF(c *vc.Case, h *History, o OptSet, prop string, failFirstWrite func(k int) bool) (*FrameMon, *Stream) {
	if failFirstWrite != nil {
		faultMu.Lock()
		defer faultMu.Unlock()
		defer func() { acommon.VerifFault = nil }()
	}
	s := NewStream(o)
	fm := NewFrameMon(o.LimitValue())
	refused := 0
	// a receiver that lags behind: the emitted batches are kept AS RETURNED (not cloned) and framed a
	// second time once the whole history has been produced (large lazy ramps excepted, for memory)
	type kept struct {
		k   int
		sig canon.Signal
		bar *colarspb.BatchArrowRecords
	}
	var lag []kept
	for k := 0; k < h.Len(); k++ {
		b := h.At(k)
		h.Forget(k - 1)
		if k%5 == 3 {
			// periodic stats reporting is ordinary use of the producer between two batches
			_ = capture(func() { _ = s.P.GetAndResetStats() })
			c.Count("stats_polls_between_batches", 1)
		}
		if failFirstWrite != nil {
			acommon.VerifFault = nil
			if failFirstWrite(k) {
				fired := false
				acommon.VerifFault = func(site string) error {
					if site == "ipc-write" && !fired {
						fired = true
						return errInjected
					}
					return nil
				}
			}
		}
		bar, err, pi := s.Encode(b)
		c.Count("batches", 1)
		if err != nil && errors.Is(err, errInjected) {
			c.Count("produce_calls_failed_on_their_first_ipc_write", 1)
		}
		if pi != nil {
			// C08's business; the stream is dead afterwards
			c.Count("producer_panics_not_this_property", 1)
			break
		}
		if err != nil {
			refused++
			c.Count("refused_batches", 1)
			continue
		}
		for _, f := range fm.Observe(b.Sig, bar) {
			if f.Prop == prop {
				c.ViolationFor(prop, f.Sig, f.Detail, witness(h, k, o, map[string]any{"finding": f.Sig, "detail": f.Detail}))
			} else {
				c.Count("findings_of_other_property_"+f.Prop, 1)
			}
		}
		if bar != nil && len(bar.ArrowPayloads) > 0 {
			// reported, not deciding (row count is C01-C03's business)
			c.Count("main_payloads", 1)
		}
		if h.Gen == nil {
			lag = append(lag, kept{k, b.Sig, bar})
		}
	}
	if len(lag) > 0 {
		fm2 := NewFrameMon(o.LimitValue())
		for _, kb := range lag {
			for _, f := range fm2.Observe(kb.sig, kb.bar) {
				if f.Prop == prop {
					c.ViolationFor(prop, "lagging receiver (batches framed after the whole history was produced): "+f.Sig, f.Detail,
						witness(h, kb.k, o, map[string]any{"finding": f.Sig, "detail": f.Detail, "note": "the same batch was well framed when it was returned"}))
				}
			}
			c.Count("batches_framed_again_by_a_lagging_receiver", 1)
		}
		fm2.Close()
	}
	fm.Close()
	s.Close()
	c.Count("payloads", fm.Payloads)
	c.Count("ipc.schema_msgs", fm.SchemaMsgs)
	c.Count("ipc.dictionary_msgs", fm.DictMsgs)
	c.Count("ipc.record_msgs", fm.RecordMsgs)
	c.Count("retired_schema_ids", fm.RetiredIDs)
	c.Count("dictionary_replacements_under_same_schema", fm.DictReplacements)
	c.Count("dict_columns_checked", fm.DictColumns)
	c.Max("max_dictionary_len", fm.MaxDictLen)
	for k, v := range s.Obs.Counts {
		c.Count("obs."+k, v)
	}
	return fm, s
}

func TestC12(t *testing.T) {
	r := vc.NewRunner(t, "C12")
	defer r.Close()
	carve, carveNames := carveFor("C12")
	r.Meta(vc.Meta{
		Level:       "exploration",
		Rule:        "case = one stream history (single signal or traces/logs/metrics interleaved on ONE producer; random dictionary limit / reset threshold / zstd; cardinality ramps that force schema changes and dictionary resets; histories with refused oversize batches; histories in which Produce calls fail on their first IPC write - injected through the verif hook, nothing written - and the producer is used on) with periodic GetAndResetStats() calls between batches, whose every emitted BatchArrowRecords is checked online, and a second time by a lagging receiver that frames the batches exactly as they were returned (not cloned) after the whole history has been produced: batch id = previous+1, first payload = main type, payload types unique, related payloads non-empty, schema id write-once per (type, schema) and never reused after retirement, per-id IPC message sequence [Schema] Dict* RecordBatch without trailing bytes, an independent ipc.Reader per schema id yields exactly one record per payload with all dictionary indices in range. Non-trivial = history with >=1 retired schema id or >=1 dictionary replacement. Distinct = (script, signals, options, #retired ids, #replacements).",
		Assumptions: []string{"the independent reader is arrow-go's ipc package (independent of the repository's Consumer, not of the Arrow library)", "sampled histories"},
		Gates: map[string]map[string]int{
			"quick":    {"retired_schema_ids": 100, "payloads": 3000, "obs.reset": 1, "ipc.dictionary_msgs": 100, "refused_batches": 8, "produce_calls_failed_on_their_first_ipc_write": 60},
			"thorough": {"retired_schema_ids": 2000, "payloads": 60000, "obs.reset": 5, "ipc.dictionary_msgs": 2000, "refused_batches": 30, "produce_calls_failed_on_their_first_ipc_write": 600},
		},
		Excluded: carveNames,
	})
	e := r.Env
	sigSets := [][]canon.Signal{{canon.Traces}, {canon.Logs}, {canon.Metrics}, {canon.Traces, canon.Logs}, {canon.Traces, canon.Logs, canon.Metrics}, {canon.Logs, canon.Metrics}}
	r.Layer("mixed", e.Pick(300, 6000), func(c *vc.Case) {
		g := gen.New(c.R, gen.DValid)
		g.Carve = carve
		sigs := sigSets[c.R.IntN(len(sigSets))]
		o := RandomOpts(c.R)
		o.SpanOrder, o.A16, o.A32 = -1, -1, -1
		h := GenHistory(c.R, g, sigs, e.Pick(10, 40), e.Pick(12, 30))
		fm, _ := frameHistory(c, h, o, "C12")
		c.FP(h.Script, fmt.Sprint(sigs), o.String(), fmt.Sprintf("ret=%d rep=%d", fm.RetiredIDs, fm.DictReplacements))
		c.Nontrivial(fm.RetiredIDs > 0 || fm.DictReplacements > 0)
		if c.Idx < 48 {
			c.Sample(map[string]any{"script": h.Script, "signals": fmt.Sprint(sigs), "options": o.String(), "batches": h.Len(),
				"retired_schema_ids": fm.RetiredIDs, "dictionary_replacements": fm.DictReplacements, "payloads": fm.Payloads})
		}
	})
	// sibling payload types built from the same prototype schema on one producer (classic and
	// exponential histograms, both with exemplars carrying filtered attributes; number points with
	// exemplars): their records often have the SAME adaptive schema, so only the payload type keeps
	// their sub-streams apart
	r.Layer("sibling-types", e.Pick(30, 300), func(c *vc.Case) {
		g := gen.New(c.R, gen.DValid)
		g.Carve = carve
		h := &History{Script: "sibling-types"}
		nb := 2 + c.R.IntN(5)
		for k := 0; k < nb; k++ {
			g.ZeroBias = []float64{0.05, 0.15, 0.3}[c.R.IntN(3)]
			g.SameAttrBias = []float64{0, 0.5}[c.R.IntN(2)]
			h.Batches = append(h.Batches, MB(g.Metrics(4+c.R.IntN(8), [][]int{{3, 4}, {3, 4, 1}, {3, 4, 2, 5}}[c.R.IntN(3)])))
		}
		o := RandomOpts(c.R)
		o.SpanOrder, o.A16, o.A32 = -1, -1, -1
		fm, _ := frameHistory(c, h, o, "C12")
		c.FP(h.Script, o.String(), fmt.Sprintf("ret=%d rep=%d nb=%d", fm.RetiredIDs, fm.DictReplacements, nb))
		c.Nontrivial(fm.RetiredIDs > 0 || fm.DictReplacements > 0)
		if c.Idx < 3 {
			c.Sample(map[string]any{"script": h.Script, "options": o.String(), "batches": nb, "payloads": fm.Payloads})
		}
	})
	// refused batches inside a stream: ids must be gap-free over the batches that WERE emitted and the
	// sub-streams must stay valid although the producer discarded half-built records
	r.Layer("refused", e.Pick(numOversizeKinds, 3*numOversizeKinds), func(c *vc.Case) {
		big, name := oversize(c.Idx%numOversizeKinds, []int{65600, 65536, 131073}[(c.Idx/numOversizeKinds)%3])
		g := gen.New(c.R, gen.DValid)
		g.Carve = carve
		h := &History{Script: "refused:" + name}
		g.ZeroBias = 0.5
		h.Batches = []Batch{genBatch(g, big.Sig, 8), genBatch(g, big.Sig, 8), big, genBatch(g, big.Sig, 8), copyBatch(big), genBatch(g, big.Sig, 8), genBatch(g, big.Sig, 8)}
		o := DefaultOpts()
		o.Zstd = c.R.IntN(2)
		fm, _ := frameHistory(c, h, o, "C12")
		c.FP(h.Script, o.String())
		c.Nontrivial(true)
		c.Sample(map[string]any{"script": h.Script, "options": o.String(), "batches": h.Len(), "emitted": fm.Batches})
	})
	// Produce calls that fail before anything was written (injected failure of the batch's first IPC write):
	// the call emits nothing and consumes no batch id; the batches emitted before and after it must form
	// one gap-free, well-framed stream
	r.Layer("failed-produce", e.Pick(30, 300), func(c *vc.Case) {
		g := gen.New(c.R, gen.DValid)
		g.Carve = carve
		sigs := sigSets[c.R.IntN(len(sigSets))]
		o := RandomOpts(c.R)
		o.SpanOrder, o.A16, o.A32 = -1, -1, -1
		h := GenHistory(c.R, g, sigs, e.Pick(12, 30), 12)
		fails := map[int]bool{}
		for k := 0; k < h.Len(); k++ {
			if c.R.IntN(4) == 0 {
				fails[k] = true
			}
		}
		fails[c.R.IntN(h.Len())] = true
		fm, _ := frameHistoryF(c, h, o, "C12", func(k int) bool { return fails[k] })
		c.FP("failed-produce", h.Script, fmt.Sprint(sigs), o.String(), fmt.Sprint(len(fails)))
		c.Nontrivial(fm.Batches >= 2)
		if c.Idx < 4 {
			c.Sample(map[string]any{"layer": "failed-produce", "script": h.Script, "batches": h.Len(), "failed_produce_calls": len(fails), "emitted": fm.Batches})
		}
	})
	// every dictionary-encodable field unique per item: all dictionary columns of every record type change
	// their index width (or overflow) in the same build, or - staggered - one after the other (a retired schema
	// id every few batches)
	r.Layer("wide", e.Pick(6, 30), func(c *vc.Case) {
		sig := canon.Signal(c.Idx % 3)
		o := RandomOpts(c.R)
		o.SpanOrder, o.A16, o.A32 = -1, -1, -1
		o.Limit = []string{"8", "16", "default", "none"}[c.R.IntN(4)]
		var h *History
		if (c.Idx/3)%2 == 0 {
			h = WideHistory(sig, 3, 300, 0)
		} else {
			h = WideHistory(sig, 50, 120, 1)
		}
		fm, _ := frameHistory(c, h, o, "C12")
		c.FP(h.Script, sig.String(), o.String(), fmt.Sprintf("ret=%d rep=%d", fm.RetiredIDs, fm.DictReplacements))
		c.Nontrivial(fm.RetiredIDs > 0 || fm.DictReplacements > 0)
		c.Sample(map[string]any{"script": h.Script, "signal": sig.String(), "options": o.String(), "retired_schema_ids": fm.RetiredIDs})
	})
	// cardinality ramps under small limits: schema changes by overflow, resets under an unchanged schema
	r.Layer("ramp", e.Pick(24, 240), func(c *vc.Case) {
		sig := canon.Signal(c.Idx % 3)
		o := DefaultOpts()
		o.Limit = []string{"8", "8", "16", "default"}[c.R.IntN(4)]
		o.Reset = []float64{0, 0.05, 0.3, 1, 10}[c.R.IntN(5)]
		o.Zstd = c.R.IntN(2)
		h := RampHistory(c.R, sig, 6+c.R.IntN(6), 150+c.R.IntN(200), c.R.IntN(2) == 0)
		fm, _ := frameHistory(c, h, o, "C12")
		c.FP(h.Script, sig.String(), o.String(), fmt.Sprintf("ret=%d rep=%d", fm.RetiredIDs, fm.DictReplacements))
		c.Nontrivial(fm.RetiredIDs > 0 || fm.DictReplacements > 0)
		c.Sample(map[string]any{"script": h.Script, "signal": sig.String(), "options": o.String(), "retired_schema_ids": fm.RetiredIDs,
			"dictionary_replacements": fm.DictReplacements, "max_dictionary_len": fm.MaxDictLen})
	})
}
