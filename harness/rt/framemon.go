package rt

import (
	"bytes"
	"errors"
	"fmt"
	"io"
	"math"

	"github.com/apache/arrow-go/v18/arrow"
	"github.com/apache/arrow-go/v18/arrow/array"
	"github.com/apache/arrow-go/v18/arrow/ipc"
	"github.com/apache/arrow-go/v18/arrow/memory"

	colarspb "github.com/open-telemetry/otel-arrow/api/experimental/arrow/v1"

	"verif/common/canon"
)

// Finding is one monitor observation that refutes C12 or C13.
type Finding struct {
	Prop   string
	Sig    string
	Detail string
}

// refill is an io.Reader the monitor refills with one payload at a time.
type refill struct{ r *bytes.Reader }

func (f *refill) Read(p []byte) (int, error) { return f.r.Read(p) }

type idState struct {
	ptype    colarspb.ArrowPayloadType
	schemaFP string
	src      *refill
	rd       *ipc.Reader
	retired  bool
	payloads int
	broken   bool
}

// FrameMon is the independent stream monitor of DESIGN §5.3: it never uses the repository's
// Consumer. One instance per producer; Observe is called with every emitted batch, in order.
type FrameMon struct {
	Limit       uint64 // configured dictionary limit as passed by the harness; 0 = dictionaries disabled
	nextBatchID int64
	ids         map[string]*idState
	current     map[colarspb.ArrowPayloadType]string
	mem         memory.Allocator

	// observations
	Batches, Payloads, RetiredIDs, DictColumns, DictReplacements, SchemaMsgs, DictMsgs, RecordMsgs int64
	MaxDictLen                                                                                     int64
	MaxDictLenByBits                                                                               map[int]int64
	dictLens                                                                                       map[string]int
}

func NewFrameMon(limit uint64) *FrameMon {
	return &FrameMon{Limit: limit, ids: map[string]*idState{}, current: map[colarspb.ArrowPayloadType]string{},
		mem: memory.NewGoAllocator(), MaxDictLenByBits: map[int]int64{}, dictLens: map[string]int{}}
}

var mainType = map[canon.Signal]colarspb.ArrowPayloadType{
	canon.Traces:  colarspb.ArrowPayloadType_SPANS,
	canon.Logs:    colarspb.ArrowPayloadType_LOGS,
	canon.Metrics: colarspb.ArrowPayloadType_UNIVARIATE_METRICS,
}

func isMain(t colarspb.ArrowPayloadType) bool {
	return t == colarspb.ArrowPayloadType_SPANS || t == colarspb.ArrowPayloadType_LOGS ||
		t == colarspb.ArrowPayloadType_UNIVARIATE_METRICS || t == colarspb.ArrowPayloadType_MULTIVARIATE_METRICS
}

// scan returns the sequence of IPC message types in one payload and the number of bytes
// the message reader left unread.
func scan(rec []byte) (seq []ipc.MessageType, trailing int, err error) {
	br := bytes.NewReader(rec)
	mr := ipc.NewMessageReader(br)
	defer mr.Release()
	for {
		m, e := mr.Message()
		if e != nil {
			// arrow-go reports the end of input as a wrapped io.EOF while reading the next
			// continuation indicator; with nothing left unread that is a clean end
			if errors.Is(e, io.EOF) && br.Len() == 0 {
				return seq, 0, nil
			}
			return seq, br.Len(), e
		}
		seq = append(seq, m.Type())
	}
}

func seqString(seq []ipc.MessageType) string {
	s := ""
	for _, m := range seq {
		switch m {
		case ipc.MessageSchema:
			s += "S"
		case ipc.MessageDictionaryBatch:
			s += "D"
		case ipc.MessageRecordBatch:
			s += "R"
		default:
			s += "?"
		}
	}
	return s
}

// Observe checks one emitted batch. expectRows < 0 means unknown.
func (f *FrameMon) Observe(sig canon.Signal, bar *colarspb.BatchArrowRecords) (out []Finding) {
	add := func(prop, s, d string) { out = append(out, Finding{prop, s, d}) }
	defer func() {
		if r := recover(); r != nil {
			add("C12", "independent reader panicked on emitted payload", fmt.Sprint(r))
		}
	}()
	f.Batches++
	if bar.BatchId != f.nextBatchID {
		add("C12", "batch id not previous+1", fmt.Sprintf("got %d want %d", bar.BatchId, f.nextBatchID))
	}
	f.nextBatchID = bar.BatchId + 1
	if len(bar.ArrowPayloads) == 0 {
		add("C12", "batch without payloads", "")
		return
	}
	if bar.ArrowPayloads[0].Type != mainType[sig] {
		add("C12", "first payload is not the main record of the signal", fmt.Sprintf("first=%v signal=%v", bar.ArrowPayloads[0].Type, sig))
	}
	seen := map[colarspb.ArrowPayloadType]bool{}
	for pi, p := range bar.ArrowPayloads {
		f.Payloads++
		if seen[p.Type] {
			add("C12", "payload type appears twice in one batch", p.Type.String())
		}
		seen[p.Type] = true
		st := f.ids[p.SchemaId]
		first := st == nil
		if first {
			// a payload type that moves to a new schema id retires all its older ids
			if old, ok := f.current[p.Type]; ok {
				if os := f.ids[old]; os != nil && !os.retired {
					os.retired = true
					f.RetiredIDs++
					if os.rd != nil {
						os.rd.Release()
						os.rd = nil
					}
				}
			}
			st = &idState{ptype: p.Type, src: &refill{r: bytes.NewReader(nil)}}
			f.ids[p.SchemaId] = st
			f.current[p.Type] = p.SchemaId
		} else {
			if st.retired {
				add("C12", "retired schema id used again", fmt.Sprintf("id=%s type=%v", p.SchemaId, p.Type))
				continue
			}
			if st.ptype != p.Type {
				add("C12", "schema id denotes two payload types", fmt.Sprintf("id=%s %v then %v", p.SchemaId, st.ptype, p.Type))
				continue
			}
		}
		st.payloads++
		// (a) message-type scanner
		seq, trailing, err := scan(p.Record)
		ss := seqString(seq)
		for _, m := range seq {
			switch m {
			case ipc.MessageSchema:
				f.SchemaMsgs++
			case ipc.MessageDictionaryBatch:
				f.DictMsgs++
			case ipc.MessageRecordBatch:
				f.RecordMsgs++
			}
		}
		if err != nil {
			add("C12", "payload is not a sequence of IPC messages", fmt.Sprintf("payload %d type %v: %v (seq %s)", pi, p.Type, err, ss))
			st.broken = true
			continue
		}
		if trailing != 0 {
			add("C12", "trailing bytes after the last IPC message", fmt.Sprintf("payload %d type %v: %d bytes", pi, p.Type, trailing))
		}
		ok := len(ss) >= 1 && ss[len(ss)-1] == 'R'
		body := ss
		if first {
			ok = ok && len(ss) >= 2 && ss[0] == 'S'
			if len(ss) > 0 {
				body = ss[1:]
			}
		}
		if len(body) > 0 {
			for _, ch := range body[:len(body)-1] {
				if ch != 'D' {
					ok = false
				}
			}
		}
		if !ok {
			add("C12", "IPC message sequence of a payload is not [Schema] Dict* RecordBatch", fmt.Sprintf("payload %d type %v id %s first=%v seq=%s", pi, p.Type, p.SchemaId, first, ss))
			st.broken = true
			continue
		}
		if st.broken {
			continue
		}
		// (b) persistent independent reader per schema id
		st.src.r.Reset(p.Record)
		if st.rd == nil {
			rd, err := ipc.NewReader(st.src, ipc.WithAllocator(f.mem), ipc.WithDictionaryDeltas(true))
			if err != nil {
				add("C12", "independent Arrow reader cannot open the sub-stream", fmt.Sprintf("type %v id %s: %v", p.Type, p.SchemaId, err))
				st.broken = true
				continue
			}
			st.rd = rd
			st.schemaFP = rd.Schema().Fingerprint()
		}
		if !st.rd.Next() {
			add("C12", "independent Arrow reader yields no record for a payload", fmt.Sprintf("type %v id %s: err=%v", p.Type, p.SchemaId, st.rd.Err()))
			st.broken = true
			continue
		}
		rec := st.rd.Record()
		if st.src.r.Len() != 0 {
			add("C12", "independent Arrow reader left bytes unread (more than one record in a payload)", fmt.Sprintf("type %v: %d bytes", p.Type, st.src.r.Len()))
		}
		if fp := rec.Schema().Fingerprint(); fp != st.schemaFP {
			add("C12", "schema id denotes two Arrow schemas", fmt.Sprintf("type %v id %s", p.Type, p.SchemaId))
		}
		if !isMain(p.Type) && rec.NumRows() == 0 {
			add("C12", "related payload is empty", fmt.Sprintf("type %v id %s", p.Type, p.SchemaId))
		}
		// (c) recursive walk over every decoded column
		for ci := 0; ci < int(rec.NumCols()); ci++ {
			f.walk(fmt.Sprintf("%v/%s/%s", p.Type, p.SchemaId, rec.ColumnName(ci)), rec.Column(ci), &out)
		}
	}
	return
}

func (f *FrameMon) walk(path string, a arrow.Array, out *[]Finding) {
	switch x := a.(type) {
	case *array.Dictionary:
		f.DictColumns++
		d := x.Dictionary()
		n := d.Len()
		if prev, ok := f.dictLens[path]; ok && n < prev {
			f.DictReplacements++ // dictionary restarted under the same schema id
		}
		f.dictLens[path] = n
		if int64(n) > f.MaxDictLen {
			f.MaxDictLen = int64(n)
		}
		bits := 0
		if fw, ok := x.Indices().DataType().(arrow.FixedWidthDataType); ok {
			bits = fw.BitWidth()
		}
		if int64(n) > f.MaxDictLenByBits[bits] {
			f.MaxDictLenByBits[bits] = int64(n)
		}
		if f.Limit == 0 {
			*out = append(*out, Finding{"C13", "dictionary-encoded column although dictionaries are disabled", path})
		} else if uint64(n) > f.Limit {
			*out = append(*out, Finding{"C13", "dictionary larger than the configured limit", fmt.Sprintf("%s: %d entries > limit %d", path, n, f.Limit)})
		}
		if bits > 0 && bits < 63 && uint64(n) > (uint64(1)<<uint(bits)) {
			*out = append(*out, Finding{"C13", "dictionary larger than its index type can address", fmt.Sprintf("%s: %d entries, %d-bit index", path, n, bits)})
		}
		// all indices in range
		idx := x.Indices()
		bad := -1
		for i := 0; i < idx.Len() && bad < 0; i++ {
			if idx.IsNull(i) {
				continue
			}
			if x.GetValueIndex(i) >= n || x.GetValueIndex(i) < 0 {
				bad = i
			}
		}
		if bad >= 0 {
			*out = append(*out, Finding{"C12", "dictionary index out of range", fmt.Sprintf("%s row %d: %d >= %d", path, bad, x.GetValueIndex(bad), n)})
		}
		f.walk(path+"/dict", d, out)
	case *array.Struct:
		for i := 0; i < x.NumField(); i++ {
			f.walk(path+"."+x.DataType().(*arrow.StructType).Field(i).Name, x.Field(i), out)
		}
	case *array.Map:
		f.walk(path+"/keys", x.Keys(), out)
		f.walk(path+"/items", x.Items(), out)
	case *array.List:
		f.walk(path+"[]", x.ListValues(), out)
	case *array.LargeList:
		f.walk(path+"[]", x.ListValues(), out)
	case *array.SparseUnion:
		for i := 0; i < x.NumFields(); i++ {
			f.walk(fmt.Sprintf("%s|%d", path, i), x.Field(i), out)
		}
	case *array.DenseUnion:
		for i := 0; i < x.NumFields(); i++ {
			f.walk(fmt.Sprintf("%s|%d", path, i), x.Field(i), out)
		}
	}
}

// SchemaHasDict reports whether any field of a schema is dictionary typed.
func SchemaHasDict(dt arrow.DataType) bool {
	switch t := dt.(type) {
	case *arrow.DictionaryType:
		return true
	case *arrow.StructType:
		for _, f := range t.Fields() {
			if SchemaHasDict(f.Type) {
				return true
			}
		}
	case *arrow.ListType:
		return SchemaHasDict(t.Elem())
	case *arrow.MapType:
		return SchemaHasDict(t.KeyType()) || SchemaHasDict(t.ItemType())
	case arrow.UnionType:
		for _, f := range t.Fields() {
			if SchemaHasDict(f.Type) {
				return true
			}
		}
	}
	return false
}

func (f *FrameMon) Close() {
	for _, st := range f.ids {
		if st.rd != nil {
			st.rd.Release()
			st.rd = nil
		}
	}
}

// limit as float for reports
func limitStr(l uint64) string {
	if l == math.MaxUint64 {
		return "2^64-1"
	}
	return fmt.Sprint(l)
}
