package rt

import (
	"fmt"
	"math"
	"math/rand/v2"
	"regexp"
	"runtime/debug"
	"strings"
	"sync"

	"github.com/apache/arrow-go/v18/arrow"
	"github.com/apache/arrow-go/v18/arrow/memory"
	"go.opentelemetry.io/collector/pdata/plog"
	"go.opentelemetry.io/collector/pdata/pmetric"
	"go.opentelemetry.io/collector/pdata/ptrace"

	colarspb "github.com/open-telemetry/otel-arrow/api/experimental/arrow/v1"
	cfg "github.com/open-telemetry/otel-arrow/pkg/config"
	"github.com/open-telemetry/otel-arrow/pkg/otel/arrow_record"
	"github.com/open-telemetry/otel-arrow/pkg/record_message"

	"verif/common/canon"
)

// Batch is one OTLP value of one signal.
type Batch struct {
	Sig canon.Signal
	T   ptrace.Traces
	L   plog.Logs
	M   pmetric.Metrics
}

func TB(t ptrace.Traces) Batch   { return Batch{Sig: canon.Traces, T: t} }
func LB(l plog.Logs) Batch       { return Batch{Sig: canon.Logs, L: l} }
func MB(m pmetric.Metrics) Batch { return Batch{Sig: canon.Metrics, M: m} }

func (b Batch) Canon() (*canon.Set, error) {
	switch b.Sig {
	case canon.Traces:
		return canon.FromTraces(b.T)
	case canon.Logs:
		return canon.FromLogs(b.L)
	default:
		return canon.FromMetrics(b.M)
	}
}

// Proto returns the OTLP protobuf serialisation (C15's immutability oracle, replay files).
func (b Batch) Proto() []byte {
	var out []byte
	switch b.Sig {
	case canon.Traces:
		out, _ = (&ptrace.ProtoMarshaler{}).MarshalTraces(b.T)
	case canon.Logs:
		out, _ = (&plog.ProtoMarshaler{}).MarshalLogs(b.L)
	default:
		out, _ = (&pmetric.ProtoMarshaler{}).MarshalMetrics(b.M)
	}
	return out
}

func (b Batch) JSON() string {
	var out []byte
	switch b.Sig {
	case canon.Traces:
		out, _ = (&ptrace.JSONMarshaler{}).MarshalTraces(b.T)
	case canon.Logs:
		out, _ = (&plog.JSONMarshaler{}).MarshalLogs(b.L)
	default:
		out, _ = (&pmetric.JSONMarshaler{}).MarshalMetrics(b.M)
	}
	return string(out)
}

// Items is the number of spans / log records / metrics.
func (b Batch) Items() int {
	switch b.Sig {
	case canon.Traces:
		return b.T.SpanCount()
	case canon.Logs:
		return b.L.LogRecordCount()
	default:
		return b.M.MetricCount()
	}
}

// ------------------------------------------------------------------ options

// OptSet is a generated producer configuration (kept symbolic so that it can be reported).
type OptSet struct {
	Limit     string  // "default" | "none" | "8" | "16" | "32" | "64"
	Reset     float64 // < 0: default
	Zstd      int     // -1 default, 0 off, 1 on
	SpanOrder int     // -1 default
	A16       int     // -1 default
	A32       int     // -1 default
	Stats     int     // bit 1: WithCompressionRatioStats, bit 2: WithSchemaStats, bit 4: WithProducerStats (silent statistics options)
}

func DefaultOpts() OptSet {
	return OptSet{Limit: "default", Reset: -1, Zstd: -1, SpanOrder: -1, A16: -1, A32: -1}
}

func (o OptSet) String() string {
	if o.Stats != 0 {
		return fmt.Sprintf("limit=%s reset=%v zstd=%d span=%d a16=%d a32=%d stats=%d", o.Limit, o.Reset, o.Zstd, o.SpanOrder, o.A16, o.A32, o.Stats)
	}
	return fmt.Sprintf("limit=%s reset=%v zstd=%d span=%d a16=%d a32=%d", o.Limit, o.Reset, o.Zstd, o.SpanOrder, o.A16, o.A32)
}

// LimitValue is the configured dictionary limit as the harness passed it (never read from
// the producer's internals).
func (o OptSet) LimitValue() uint64 {
	switch o.Limit {
	case "none":
		return 0
	case "8":
		return math.MaxUint8
	case "16", "default":
		return math.MaxUint16
	case "32":
		return math.MaxUint32
	default:
		return math.MaxUint64
	}
}

func (o OptSet) Options() []cfg.Option {
	var out []cfg.Option
	switch o.Limit {
	case "none":
		out = append(out, cfg.WithNoDictionary())
	case "8":
		out = append(out, cfg.WithUint8LimitDictIndex())
	case "16":
		out = append(out, cfg.WithUint16LimitDictIndex())
	case "32":
		out = append(out, cfg.WithUint32LimitDictIndex())
	case "64":
		out = append(out, cfg.WithUint64LimitDictIndex())
	}
	if o.Reset >= 0 {
		out = append(out, cfg.WithDictResetThreshold(o.Reset))
	}
	switch o.Zstd {
	case 0:
		out = append(out, cfg.WithNoZstd())
	case 1:
		out = append(out, cfg.WithZstd())
	}
	if o.SpanOrder >= 0 {
		out = append(out, cfg.WithOrderSpanBy(cfg.OrderSpanBy(o.SpanOrder)))
	}
	if o.A16 >= 0 {
		out = append(out, cfg.WithOrderAttrs16By(cfg.OrderAttrs16By(o.A16)))
	}
	if o.A32 >= 0 {
		out = append(out, cfg.WithOrderAttrs32By(cfg.OrderAttrs32By(o.A32)))
	}
	if o.Stats&1 != 0 {
		out = append(out, cfg.WithCompressionRatioStats())
	}
	if o.Stats&2 != 0 {
		out = append(out, cfg.WithSchemaStats())
	}
	if o.Stats&4 != 0 {
		out = append(out, cfg.WithProducerStats())
	}
	return out
}

var (
	limitChoices = []string{"default", "none", "8", "16", "32", "64"}
	resetChoices = []float64{-1, 0, 0.05, 0.3, 1, 10}
)

// RandomOpts draws a producer configuration. carveA is true while D8 is an open finding:
// attribute orderings other than the default are then excluded from random exploration.
func RandomOpts(r *rand.Rand) OptSet {
	o := DefaultOpts()
	o.Limit = limitChoices[r.IntN(len(limitChoices))]
	o.Reset = resetChoices[r.IntN(len(resetChoices))]
	o.Zstd = r.IntN(3) - 1
	o.SpanOrder = r.IntN(8) - 1
	o.A16 = r.IntN(5) - 1
	o.A32 = r.IntN(6) - 1
	// statistics options change nothing on the wire; derived from the draws above (no extra draw, so that the
	// cases of earlier rounds stay what they were): three in eight option sets enable some of them
	o.Stats = []int{0, 0, 0, 0, 0, 1, 1, 5}[(o.SpanOrder+1+(o.A16+1)*8+(o.A32+1)*40+o.Zstd+1)%8]
	return o
}

// ------------------------------------------------------------------ observer monitor

// ObsMon is a ProducerObserver counting schema-evolution events (coverage for C04/C13).
type ObsMon struct {
	mu     sync.Mutex
	Counts map[string]int64
	Fields map[string]bool
}

func NewObsMon() *ObsMon { return &ObsMon{Counts: map[string]int64{}, Fields: map[string]bool{}} }

func (o *ObsMon) add(k string) { o.mu.Lock(); o.Counts[k]++; o.mu.Unlock() }

func (o *ObsMon) OnNewField(recordName string, fieldPath string) {
	o.mu.Lock()
	o.Counts["new_field"]++
	o.Fields[recordName+":"+fieldPath] = true
	o.mu.Unlock()
}
func bits(dt arrow.DataType) int {
	if fw, ok := dt.(arrow.FixedWidthDataType); ok {
		return fw.BitWidth()
	}
	return 0
}
func (o *ObsMon) OnDictionaryUpgrade(recordName string, fieldPath string, prev, next arrow.DataType, card, total uint64) {
	o.add(fmt.Sprintf("upgrade_%d_to_%d", bits(prev), bits(next)))
}
func (o *ObsMon) OnDictionaryOverflow(recordName string, fieldPath string, card, total uint64) {
	o.add("overflow")
}
func (o *ObsMon) OnSchemaUpdate(recordName string, old, new *arrow.Schema) { o.add("schema_update") }
func (o *ObsMon) OnDictionaryReset(recordName string, fieldPath string, indexType arrow.DataType, card, total uint64) {
	o.add("reset")
}
func (o *ObsMon) OnMetadataUpdate(recordName, metadataKey string)   { o.add("metadata_update") }
func (o *ObsMon) OnRecord(arrow.Record, record_message.PayloadType) { o.add("record") }

func (o *ObsMon) Get(k string) int64 { o.mu.Lock(); defer o.mu.Unlock(); return o.Counts[k] }

// ------------------------------------------------------------------ panic capture

type PanicInfo struct {
	Value string
	Stack string
}

var (
	reHex  = regexp.MustCompile(`0x[0-9a-fA-F]+`)
	reNum  = regexp.MustCompile(`\b\d+\b`)
	reFunc = regexp.MustCompile(`^(github\.com/open-telemetry/otel-arrow/\S+)\(`)
)

// Site returns the first repository frame below the panic.
func (p *PanicInfo) Site() string {
	lines := strings.Split(p.Stack, "\n")
	for i := 0; i < len(lines); i++ {
		l := lines[i]
		if strings.HasPrefix(l, "github.com/open-telemetry/otel-arrow/") {
			if m := reFunc.FindStringSubmatch(l); m != nil {
				f := strings.TrimPrefix(m[1], "github.com/open-telemetry/otel-arrow/")
				return f
			}
		}
	}
	return "?"
}

// Signature abstracts numbers out of the panic value so that it is stable.
func (p *PanicInfo) Signature() string {
	v := reHex.ReplaceAllString(p.Value, "0x?")
	v = reNum.ReplaceAllString(v, "N")
	if len(v) > 120 {
		v = v[:120]
	}
	return fmt.Sprintf("panic %q at %s", v, p.Site())
}

func capture(f func()) (pi *PanicInfo) {
	defer func() {
		if r := recover(); r != nil {
			pi = &PanicInfo{Value: fmt.Sprint(r), Stack: string(debug.Stack())}
		}
	}()
	f()
	return nil
}

// ------------------------------------------------------------------ stream

// Stream is one producer/consumer pair with the always-on monitors attached.
type Stream struct {
	Opts  OptSet
	P     *arrow_record.Producer
	C     *arrow_record.Consumer
	Obs   *ObsMon
	Alloc *memory.CheckedAllocator
}

func NewStream(o OptSet, copts ...arrow_record.Option) *Stream {
	s := &Stream{Opts: o, Obs: NewObsMon()}
	s.Alloc = memory.NewCheckedAllocator(memory.NewGoAllocator())
	opts := append(o.Options(), cfg.WithAllocator(s.Alloc), cfg.WithObserver(s.Obs))
	s.P = arrow_record.NewProducerWithOptions(opts...)
	s.C = arrow_record.NewConsumer(copts...)
	return s
}

// Encode runs one producer call under the panic monitor.
func (s *Stream) Encode(b Batch) (bar *colarspb.BatchArrowRecords, err error, pi *PanicInfo) {
	pi = capture(func() {
		switch b.Sig {
		case canon.Traces:
			bar, err = s.P.BatchArrowRecordsFromTraces(b.T)
		case canon.Logs:
			bar, err = s.P.BatchArrowRecordsFromLogs(b.L)
		default:
			bar, err = s.P.BatchArrowRecordsFromMetrics(b.M)
		}
	})
	return
}

// DecodeWith decodes bar with consumer c; n is the number of pdata values returned.
func DecodeWith(c *arrow_record.Consumer, sig canon.Signal, bar *colarspb.BatchArrowRecords) (set *canon.Set, n int, err error, pi *PanicInfo) {
	pi = capture(func() {
		var sets []*canon.Set
		switch sig {
		case canon.Traces:
			var out []ptrace.Traces
			out, err = c.TracesFrom(bar)
			n = len(out)
			for _, t := range out {
				cs, e := canon.FromTraces(t)
				if e != nil {
					err = fmt.Errorf("harness: canon of decoded value: %w", e)
					return
				}
				sets = append(sets, cs)
			}
		case canon.Logs:
			var out []plog.Logs
			out, err = c.LogsFrom(bar)
			n = len(out)
			for _, t := range out {
				cs, e := canon.FromLogs(t)
				if e != nil {
					err = fmt.Errorf("harness: canon of decoded value: %w", e)
					return
				}
				sets = append(sets, cs)
			}
		default:
			var out []pmetric.Metrics
			out, err = c.MetricsFrom(bar)
			n = len(out)
			for _, t := range out {
				cs, e := canon.FromMetrics(t)
				if e != nil {
					err = fmt.Errorf("harness: canon of decoded value: %w", e)
					return
				}
				sets = append(sets, cs)
			}
		}
		if len(sets) == 0 {
			set = &canon.Set{Signal: sig}
		} else {
			set = canon.Merge(sets...)
			set.Signal = sig
		}
	})
	return
}

// DecodeCount decodes bar and returns only the number of items (no canonicalisation).
func DecodeCount(c *arrow_record.Consumer, sig canon.Signal, bar *colarspb.BatchArrowRecords) (items int, err error, pi *PanicInfo) {
	pi = capture(func() {
		switch sig {
		case canon.Traces:
			var out []ptrace.Traces
			out, err = c.TracesFrom(bar)
			for _, t := range out {
				items += t.SpanCount()
			}
		case canon.Logs:
			var out []plog.Logs
			out, err = c.LogsFrom(bar)
			for _, t := range out {
				items += t.LogRecordCount()
			}
		default:
			var out []pmetric.Metrics
			out, err = c.MetricsFrom(bar)
			for _, t := range out {
				items += t.MetricCount()
			}
		}
	})
	return
}

func (s *Stream) Decode(sig canon.Signal, bar *colarspb.BatchArrowRecords) (*canon.Set, int, error, *PanicInfo) {
	return DecodeWith(s.C, sig, bar)
}

// Close closes both ends; returns the producer allocator's outstanding bytes.
func (s *Stream) Close() (leak int, pi *PanicInfo) {
	pi = capture(func() {
		_ = s.P.Close()
		_ = s.C.Close()
	})
	return s.Alloc.CurrentAlloc(), pi
}

// CloneBar deep-copies a BatchArrowRecords (fault injectors must not alias producer output).
func CloneBar(bar *colarspb.BatchArrowRecords) *colarspb.BatchArrowRecords {
	out := &colarspb.BatchArrowRecords{BatchId: bar.BatchId}
	for _, p := range bar.ArrowPayloads {
		rec := make([]byte, len(p.Record))
		copy(rec, p.Record)
		out.ArrowPayloads = append(out.ArrowPayloads, &colarspb.ArrowPayload{SchemaId: p.SchemaId, Type: p.Type, Record: rec})
	}
	return out
}
