package rt

import (
	"context"
	"sync"

	"go.opentelemetry.io/otel/metric"
	"go.opentelemetry.io/otel/metric/embedded"
	"go.opentelemetry.io/otel/metric/noop"
)

// RecMeter is a recording metric.MeterProvider handed to the Consumer through
// WithMeterProvider: it observes arrow_batch_records (how many payloads the consumer turned
// into records in the last call) and the running sum of arrow_memory_inuse deltas.
type RecMeter struct {
	embedded.MeterProvider
	mu           sync.Mutex
	LastRecords  int64 // value of the last arrow_batch_records Add
	TotalRecords int64
	Inuse        int64 // running sum of arrow_memory_inuse deltas
	InuseMax     int64
	InuseMin     int64
	InuseAdds    int64
	SchemaResets int64
}

func NewRecMeter() *RecMeter { return &RecMeter{} }

func (m *RecMeter) Meter(string, ...metric.MeterOption) metric.Meter { return &recMeter{p: m} }

type recMeter struct {
	noop.Meter
	p *RecMeter
}

type recCounter struct {
	noop.Int64Counter
	f func(int64)
}

func (c recCounter) Add(_ context.Context, v int64, _ ...metric.AddOption) { c.f(v) }

type recUpDown struct {
	noop.Int64UpDownCounter
	f func(int64)
}

func (c recUpDown) Add(_ context.Context, v int64, _ ...metric.AddOption) { c.f(v) }

func (m *recMeter) Int64Counter(name string, _ ...metric.Int64CounterOption) (metric.Int64Counter, error) {
	p := m.p
	switch name {
	case "arrow_batch_records":
		return recCounter{f: func(v int64) { p.mu.Lock(); p.LastRecords = v; p.TotalRecords += v; p.mu.Unlock() }}, nil
	case "arrow_schema_resets":
		return recCounter{f: func(v int64) { p.mu.Lock(); p.SchemaResets += v; p.mu.Unlock() }}, nil
	}
	return noop.Int64Counter{}, nil
}

func (m *recMeter) Int64UpDownCounter(name string, _ ...metric.Int64UpDownCounterOption) (metric.Int64UpDownCounter, error) {
	p := m.p
	if name == "arrow_memory_inuse" {
		return recUpDown{f: func(v int64) {
			p.mu.Lock()
			p.Inuse += v
			p.InuseAdds++
			if p.Inuse > p.InuseMax {
				p.InuseMax = p.Inuse
			}
			if p.Inuse < p.InuseMin {
				p.InuseMin = p.Inuse
			}
			p.mu.Unlock()
		}}, nil
	}
	return noop.Int64UpDownCounter{}, nil
}
