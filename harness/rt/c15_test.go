package rt

import (
	"bytes"
	"errors"
	"fmt"
	"sync"
	"testing"

	acommon "github.com/open-telemetry/otel-arrow/pkg/otel/common/arrow"

	"verif/common/canon"
	"verif/common/gen"
	"verif/common/vc"
)

var errInjected = errors.New("verif: injected encode error")

// faultMu serialises cases that install the package-level fault hook (one case per process
// at a time anyway; the mutex documents and enforces it).
var faultMu sync.Mutex

// leakHistory encodes h on one producer (no consumer needed) with the checked allocator and
// the immutability oracle; inject(site, hit) decides whether the n-th hit of a site fails.
func leakHistory(c *vc.Case, h *History, o OptSet, inject func(site string, hit int) bool) {
	faultMu.Lock()
	defer faultMu.Unlock()
	hits := map[string]int{}
	injected := 0
	injectedSite := ""
	if inject != nil {
		acommon.VerifFault = func(site string) error {
			hits[site]++
			if inject(site, hits[site]) {
				injected++
				injectedSite = site
				return errInjected
			}
			return nil
		}
		defer func() { acommon.VerifFault = nil }()
	}
	s := NewStream(o)
	errs := 0
	for k, b := range h.Batches {
		before := b.Proto()
		bar, err, pi := s.Encode(b)
		c.Count("producer_calls", 1)
		after := b.Proto()
		if !bytes.Equal(before, after) {
			c.Violation("producer modified its input", fmt.Sprintf("batch %d (%s): OTLP protobuf serialisation differs after encoding (%d -> %d bytes)", k, h.Script, len(before), len(after)), witness(h, k, o, nil))
		}
		if pi != nil {
			c.Count("producer_panics(not this property)", 1)
			break
		}
		if err != nil {
			errs++
			c.Count("encode_errors", 1)
			if errors.Is(err, errInjected) {
				c.Count("encode_errors_injected", 1)
			} else {
				c.Count("encode_errors_natural", 1)
			}
			continue
		}
		_ = bar
	}
	var leak int
	pi := capture(func() { _ = s.P.Close() })
	if pi != nil {
		c.Violation("producer.Close "+pi.Signature(), pi.Value+"\n"+clip(pi.Stack, 2500), witness(h, -1, o, nil))
	}
	leak = s.Alloc.CurrentAlloc()
	_ = capture(func() { _ = s.C.Close() })
	if leak != 0 {
		kind := "no encode error"
		if errs > 0 {
			kind = "after encode error(s)"
			if injected > 0 {
				kind = "after injected encode error at " + injectedSite
			}
		}
		c.Violation("producer holds allocator memory after Close ("+kind+")", fmt.Sprintf("%d bytes outstanding after Close; history %s, %d batches, %d encode errors (%d injected)", leak, h.Script, len(h.Batches), errs, injected),
			witness(h, -1, o, map[string]any{"bytes_outstanding": leak, "sites_hit": hits}))
	}
	c.Count("closes_checked", 1)
	c.Count("schema_updates_crossed", s.Obs.Get("schema_update"))
	c.Count("obs.overflow", s.Obs.Get("overflow"))
	c.Count("obs.reset", s.Obs.Get("reset"))
	for st, n := range hits {
		c.Count("fault_site_hits."+st, int64(n))
	}
}

func TestC15(t *testing.T) {
	r := vc.NewRunner(t, "C15")
	defer r.Close()
	carve, carveNames := carveFor("C15")
	r.Meta(vc.Meta{
		Level:       "fault_enumeration",
		Rule:        "case = one producer history with a memory.CheckedAllocator as the configured allocator. Oracle: (a) the OTLP protobuf serialisation of every input is byte-identical before and after the BatchArrowRecordsFrom* call; (b) CurrentAlloc()==0 after Close. Layers: 'history' = mixed-signal hostile histories with random producer options (schema updates, discarded-and-rebuilt records); 'ramp' = dictionary overflow/reset histories; 'oversize' = natural encode errors (batches refused for id overflow) between valid batches; 'inject' = fault enumeration over the encode path: an error injected through the verif hook at each site (related-build, ipc-write) on its 1st..8th hit, for each signal, followed by more batches and Close. Non-trivial = >=1 schema update or >=1 encode error. Distinct = (layer, script, signals, options / site, hit).",
		Assumptions: []string{"injected errors stand for encode errors no valid input reaches; they return from the hook point exactly like an error of the surrounding operation", "allocator accounting by arrow-go's CheckedAllocator"},
		Gates: map[string]map[string]int{
			"quick":    {"closes_checked": 350, "schema_updates_crossed": 1000, "encode_errors_injected": 40, "encode_errors_natural": 6, "obs.reset": 5, "obs.overflow": 5},
			"thorough": {"closes_checked": 5000, "schema_updates_crossed": 20000, "encode_errors_injected": 250, "encode_errors_natural": 20, "obs.reset": 50, "obs.overflow": 50},
		},
		ExhaustiveLayers: []string{"inject (site x hit 1..8 x signal)"},
		Excluded:         carveNames,
	})
	e := r.Env
	sigSets := [][]canon.Signal{{canon.Traces}, {canon.Logs}, {canon.Metrics}, {canon.Traces, canon.Logs, canon.Metrics}}
	r.Layer("history", e.Pick(300, 5000), func(c *vc.Case) {
		g := gen.New(c.R, gen.DValid)
		g.Carve = carve
		sigs := sigSets[c.R.IntN(len(sigSets))]
		o := RandomOpts(c.R)
		h := GenHistory(c.R, g, sigs, e.Pick(8, 30), e.Pick(15, 40))
		leakHistory(c, h, o, nil)
		c.FP("history", h.Script, fmt.Sprint(sigs), o.String())
		c.Nontrivial(true)
		if c.Idx < 32 {
			c.Sample(map[string]any{"layer": "history", "script": h.Script, "signals": fmt.Sprint(sigs), "options": o.String(), "batches": len(h.Batches)})
		}
	})
	r.Layer("ramp", e.Pick(24, 240), func(c *vc.Case) {
		sig := canon.Signal(c.Idx % 3)
		o := DefaultOpts()
		o.Limit = []string{"8", "8", "16"}[c.R.IntN(3)]
		o.Reset = c04Resets[c.R.IntN(6)]
		o.Zstd = c.R.IntN(2)
		h := RampHistory(c.R, sig, 6+c.R.IntN(6), 150+c.R.IntN(200), c.R.IntN(2) == 0)
		leakHistory(c, h, o, nil)
		c.FP("ramp", h.Script, sig.String(), o.String())
		c.Nontrivial(true)
	})
	// every dictionary column of every record type crossing its index width (or the limit) in one build:
	// the record is discarded and rebuilt up to the retry budget, several times per batch
	r.Layer("wide", e.Pick(9, 45), func(c *vc.Case) {
		sig := canon.Signal(c.Idx % 3)
		o := DefaultOpts()
		o.Limit = []string{"default", "8", "16"}[(c.Idx/3)%3]
		o.Reset = c04Resets[c.R.IntN(6)]
		o.Zstd = c.R.IntN(2)
		lazy := WideHistory(sig, 3, 300, 0)
		if c.R.IntN(2) == 0 {
			lazy = WideHistory(sig, 30, 100, 1)
		}
		h := &History{Script: lazy.Script}
		for k := 0; k < lazy.Len(); k++ {
			h.Batches = append(h.Batches, lazy.At(k))
			lazy.Forget(k)
		}
		leakHistory(c, h, o, nil)
		c.FP("wide", h.Script, sig.String(), o.String())
		c.Nontrivial(true)
	})
	r.Layer("oversize", e.Pick(numOversizeKinds, 3*numOversizeKinds), func(c *vc.Case) {
		big, name := oversize(c.Idx%numOversizeKinds, []int{65600, 65536, 131073}[(c.Idx/numOversizeKinds)%3])
		g := gen.New(c.R, gen.DValid)
		g.Carve = carve
		h := &History{Script: "oversize:" + name}
		h.Batches = []Batch{smallValid(g, big.Sig), big, smallValid(g, big.Sig), copyBatch(big), smallValid(g, big.Sig)}
		leakHistory(c, h, DefaultOpts(), nil)
		c.FP("oversize", name, fmt.Sprint(c.Idx/numOversizeKinds))
		c.Nontrivial(true)
		c.Sample(map[string]any{"layer": "oversize", "script": h.Script})
	})
	sites := []string{"related-build", "ipc-write"}
	const maxHit = 8
	r.Layer("inject", len(sites)*maxHit*3*e.Pick(1, 6), func(c *vc.Case) {
		i := c.Idx
		site := sites[i%len(sites)]
		i /= len(sites)
		hit := 1 + i%maxHit
		i /= maxHit
		sig := canon.Signal(i % 3)
		g := gen.New(c.R, gen.DValid)
		g.Carve = carve
		g.ZeroBias = 0.3
		h := &History{Script: fmt.Sprintf("inject:%s@%d", site, hit)}
		for k := 0; k < 5; k++ {
			h.Batches = append(h.Batches, genBatch(g, sig, 5+c.R.IntN(10)))
			g.ZeroBias = 0.15
		}
		o := DefaultOpts()
		if c.R.IntN(2) == 0 {
			o = RandomOpts(c.R)
		}
		leakHistory(c, h, o, func(s string, n int) bool { return s == site && n == hit })
		c.FP("inject", site, fmt.Sprint(hit), sig.String(), fmt.Sprint(c.Idx/(len(sites)*maxHit*3)))
		c.Nontrivial(true)
		if c.Idx%7 == 0 {
			c.Sample(map[string]any{"layer": "inject", "site": site, "hit": hit, "signal": sig.String(), "options": o.String()})
		}
	})
}
