// Package vc is the shared runtime of the three monitor engines (rtmon, bpmon, obfmon):
// deterministic per-case PRNG streams, sharding, the crash journal, per-case result
// records and replay files. It has no dependency on the code under test.
package vc

import (
	"crypto/sha256"
	"encoding/hex"
	"encoding/json"
	"fmt"
	"math/rand/v2"
	"os"
	"path/filepath"
	"runtime/debug"
	"sort"
	"strconv"
	"strings"
	"sync"
	"testing"
)

// Env is read from the environment set by /verif/check.
type Env struct {
	Seed        uint64
	Tier        string // quick | thorough
	Shard       int
	NShards     int
	OutDir      string
	ReplayFile  string // when set, engines re-run only that case
	ResumeAfter string // "<layer>:<idx>" of a case that killed an earlier child of this shard
	ReplayDir   string
}

func envInt(k string, def int) int {
	if s := os.Getenv(k); s != "" {
		if v, err := strconv.Atoi(s); err == nil {
			return v
		}
	}
	return def
}

func LoadEnv() *Env {
	e := &Env{Tier: os.Getenv("VERIF_TIER"), OutDir: os.Getenv("VERIF_OUT"), ReplayFile: os.Getenv("VERIF_REPLAY"),
		ResumeAfter: os.Getenv("VERIF_RESUME_AFTER"), ReplayDir: os.Getenv("VERIF_REPLAY_DIR")}
	if e.Tier == "" {
		e.Tier = "quick"
	}
	if s := os.Getenv("VERIF_SEED"); s != "" {
		if v, err := strconv.ParseUint(s, 10, 64); err == nil {
			e.Seed = v
		} else if v, err := strconv.ParseInt(s, 10, 64); err == nil {
			e.Seed = uint64(v)
		}
	} else {
		e.Seed = 1
	}
	e.Shard = envInt("VERIF_SHARD", 0)
	e.NShards = envInt("VERIF_NSHARDS", 1)
	if e.OutDir == "" {
		e.OutDir = os.TempDir()
	}
	if e.ReplayDir == "" {
		e.ReplayDir = filepath.Join(e.OutDir, "replay")
	}
	return e
}

func (e *Env) Thorough() bool { return e.Tier == "thorough" }

// Pick returns q in the quick tier and t in the thorough tier.
func (e *Env) Pick(q, t int) int {
	if e.Thorough() {
		return t
	}
	return q
}

func mix(h uint64) uint64 {
	h += 0x9e3779b97f4a7c15
	h = (h ^ (h >> 30)) * 0xbf58476d1ce4e5b9
	h = (h ^ (h >> 27)) * 0x94d049bb133111eb
	return h ^ (h >> 31)
}

func strHash(s string) uint64 {
	var h uint64 = 1469598103934665603
	for i := 0; i < len(s); i++ {
		h ^= uint64(s[i])
		h *= 1099511628211
	}
	return h
}

// NewRand derives the PRNG stream of one case from (seed, property, layer, idx) only.
func NewRand(seed uint64, prop, layer string, idx int) *rand.Rand {
	a := mix(seed ^ mix(strHash(prop)))
	b := mix(a ^ mix(strHash(layer)) ^ mix(uint64(idx)+0x1234567))
	return rand.New(rand.NewPCG(a, b))
}

type Violation struct {
	Property  string `json:"property"`
	Case      string `json:"case"`
	Signature string `json:"signature"`
	Detail    string `json:"detail,omitempty"`
	Replay    string `json:"replay,omitempty"`
}

// CaseResult is one line of results.<shard>.jsonl.
type CaseResult struct {
	Case       string              `json:"case"`
	Layer      string              `json:"layer"`
	FP         string              `json:"fp,omitempty"`
	Nontrivial bool                `json:"nt,omitempty"`
	Counters   map[string]int64    `json:"c,omitempty"`
	Maxima     map[string]int64    `json:"m,omitempty"`
	Sets       map[string][]string `json:"s,omitempty"`
	Sample     any                 `json:"sample,omitempty"`
	Violations []Violation         `json:"v,omitempty"`
	Inconcl    []string            `json:"inconclusive,omitempty"`
	// a case may consist of many sub-cases (e.g. every single fault of one batch): SubFPs are
	// their fingerprints (each one distinct non-trivial sub-case), SubEvals their number
	SubFPs   []string `json:"fps,omitempty"`
	SubEvals int      `json:"n,omitempty"`
}

// Case is handed to the workload function of one case.
type Case struct {
	R     *rand.Rand
	Env   *Env
	Prop  string
	Layer string
	Idx   int
	mu    sync.Mutex
	res   CaseResult
	fp    []string
}

func (c *Case) ID() string { return fmt.Sprintf("%s:%d", c.Layer, c.Idx) }

// Count adds to a named observation counter (summed over the run).
func (c *Case) Count(name string, d int64) {
	c.mu.Lock()
	if c.res.Counters == nil {
		c.res.Counters = map[string]int64{}
	}
	c.res.Counters[name] += d
	c.mu.Unlock()
}

// Max records a named maximum (max-merged over the run).
func (c *Case) Max(name string, v int64) {
	c.mu.Lock()
	if c.res.Maxima == nil {
		c.res.Maxima = map[string]int64{}
	}
	if old, ok := c.res.Maxima[name]; !ok || v > old {
		c.res.Maxima[name] = v
	}
	c.mu.Unlock()
}

// Seen adds a member to a named set (union-merged, counted distinct over the run).
func (c *Case) Seen(set, member string) {
	c.mu.Lock()
	if c.res.Sets == nil {
		c.res.Sets = map[string][]string{}
	}
	for _, m := range c.res.Sets[set] {
		if m == member {
			c.mu.Unlock()
			return
		}
	}
	if len(c.res.Sets[set]) < 400 {
		c.res.Sets[set] = append(c.res.Sets[set], member)
	}
	c.mu.Unlock()
}

// FP adds a component to the case's shape fingerprint.
func (c *Case) FP(parts ...string) {
	c.mu.Lock()
	c.fp = append(c.fp, parts...)
	c.mu.Unlock()
}

// Sub records one executed sub-case of this case with its fingerprint.
func (c *Case) Sub(fp string) { c.SubNT(fp, true) }

// SubNT records one executed sub-case; its fingerprint counts only when it is non-trivial.
func (c *Case) SubNT(fp string, nontrivial bool) {
	c.mu.Lock()
	c.res.SubEvals++
	if nontrivial {
		c.res.SubFPs = append(c.res.SubFPs, Hash8(c.Layer+"|"+fp))
	}
	c.mu.Unlock()
}

func (c *Case) Nontrivial(b bool) {
	c.mu.Lock()
	if b {
		c.res.Nontrivial = true
	}
	c.mu.Unlock()
}

func (c *Case) Sample(v any) {
	c.mu.Lock()
	c.res.Sample = v
	c.mu.Unlock()
}

func (c *Case) Inconclusive(why string) {
	c.mu.Lock()
	c.res.Inconcl = append(c.res.Inconcl, why)
	c.mu.Unlock()
}

// Violation records a violation; replay (any JSON-able value, may be nil) is written to a
// replay file whose path is reported.
func (c *Case) Violation(sig, detail string, replay any) {
	c.ViolationFor(c.Prop, sig, detail, replay)
}

func (c *Case) ViolationFor(prop, sig, detail string, replay any) {
	c.mu.Lock()
	defer c.mu.Unlock()
	if len(c.res.Violations) >= 40 {
		return
	}
	for _, v := range c.res.Violations {
		if v.Signature == sig && v.Property == prop {
			return // one witness per signature per case
		}
	}
	path := ""
	dir := filepath.Join(c.Env.ReplayDir, prop)
	_ = os.MkdirAll(dir, 0o755)
	path = filepath.Join(dir, fmt.Sprintf("seed%d-%s-%d-%d.json", c.Env.Seed, c.Layer, c.Idx, len(c.res.Violations)))
	doc := map[string]any{"property": prop, "seed": c.Env.Seed, "tier": c.Env.Tier, "layer": c.Layer, "idx": c.Idx,
		"signature": sig, "detail": detail, "witness": replay}
	if b, err := json.MarshalIndent(doc, "", " "); err == nil {
		_ = os.WriteFile(path, b, 0o644)
	} else {
		doc["witness"] = fmt.Sprintf("unserialisable: %v", err)
		b, _ = json.MarshalIndent(doc, "", " ")
		_ = os.WriteFile(path, b, 0o644)
	}
	if len(detail) > 1500 {
		detail = detail[:1500] + "…"
	}
	c.res.Violations = append(c.res.Violations, Violation{Property: prop, Case: c.ID(), Signature: sig, Detail: detail, Replay: path})
}

func (c *Case) NumViolations() int {
	c.mu.Lock()
	defer c.mu.Unlock()
	return len(c.res.Violations)
}

// Runner executes the cases of one property that belong to this shard.
type Runner struct {
	T           *testing.T
	Env         *Env
	Prop        string
	journal     *os.File
	results     *os.File
	resume      string
	skipping    bool
	replayLayer string
	replayIdx   int
	replayOn    bool
}

type replayHeader struct {
	Property string `json:"property"`
	Seed     uint64 `json:"seed"`
	Tier     string `json:"tier"`
	Layer    string `json:"layer"`
	Idx      int    `json:"idx"`
}

func NewRunner(t *testing.T, prop string) *Runner {
	e := LoadEnv()
	r := &Runner{T: t, Env: e, Prop: prop, resume: e.ResumeAfter, skipping: e.ResumeAfter != ""}
	if e.ReplayFile != "" {
		b, err := os.ReadFile(e.ReplayFile)
		if err != nil {
			t.Fatalf("replay file: %v", err)
		}
		var h replayHeader
		if err := json.Unmarshal(b, &h); err != nil {
			t.Fatalf("replay file: %v", err)
		}
		e.Seed, e.Tier = h.Seed, h.Tier
		r.replayOn, r.replayLayer, r.replayIdx = true, h.Layer, h.Idx
		e.Shard, e.NShards = 0, 1
	}
	_ = os.MkdirAll(e.OutDir, 0o755)
	var err error
	r.journal, err = os.OpenFile(filepath.Join(e.OutDir, fmt.Sprintf("journal.%d", e.Shard)), os.O_CREATE|os.O_APPEND|os.O_WRONLY, 0o644)
	if err != nil {
		t.Fatal(err)
	}
	r.results, err = os.OpenFile(filepath.Join(e.OutDir, fmt.Sprintf("results.%d.jsonl", e.Shard)), os.O_CREATE|os.O_APPEND|os.O_WRONLY, 0o644)
	if err != nil {
		t.Fatal(err)
	}
	return r
}

// Layer runs cases 0..n-1 of a named layer (those of this shard). Layers must be called in
// the same order by every child. f must not call t.Fatal; violations go through Case.
func (r *Runner) Layer(layer string, n int, f func(c *Case)) {
	for i := 0; i < n; i++ {
		if r.replayOn {
			if layer != r.replayLayer || i != r.replayIdx {
				continue
			}
		} else if i%r.Env.NShards != r.Env.Shard {
			continue
		}
		id := fmt.Sprintf("%s:%d", layer, i)
		if r.skipping {
			if id == r.resume {
				r.skipping = false
			}
			continue
		}
		c := &Case{R: NewRand(r.Env.Seed, r.Prop, layer, i), Env: r.Env, Prop: r.Prop, Layer: layer, Idx: i}
		c.res.Case, c.res.Layer = id, layer
		fmt.Fprintf(r.journal, "begin %s\n", id)
		r.runOne(c, f)
		sort.Strings(c.fp)
		if len(c.fp) > 0 {
			h := sha256.Sum256([]byte(strings.Join(c.fp, "|")))
			c.res.FP = hex.EncodeToString(h[:8])
		}
		b, err := json.Marshal(&c.res)
		if err != nil {
			c.res.Sample = fmt.Sprintf("unserialisable sample: %v", err)
			b, _ = json.Marshal(&c.res)
		}
		b = append(b, '\n')
		_, _ = r.results.Write(b)
		fmt.Fprintf(r.journal, "end %s\n", id)
		if !r.replayOn && rssMB() > r.maxRSS() {
			// Under -race the resident set of a long-lived child only ever grows (shadow memory of freed heap
			// is not returned), and 16 such children can exhaust the machine. The child leaves between two
			// cases; the driver starts a fresh one that resumes after this case (not a fatal event).
			fmt.Fprintf(r.journal, "recycle %s\n", id)
			r.journal.Close()
			r.results.Close()
			os.Exit(75)
		}
	}
}

func (r *Runner) maxRSS() int {
	if s := os.Getenv("VERIF_MAX_RSS_MB"); s != "" {
		if v, err := strconv.Atoi(s); err == nil && v > 0 {
			return v
		}
	}
	return 2048
}

// rssMB is the resident set size of this process in MiB (0 when /proc is not readable).
func rssMB() int {
	b, err := os.ReadFile("/proc/self/statm")
	if err != nil {
		return 0
	}
	f := strings.Fields(string(b))
	if len(f) < 2 {
		return 0
	}
	pages, _ := strconv.Atoi(f[1])
	return pages * os.Getpagesize() / (1 << 20)
}

func (r *Runner) runOne(c *Case, f func(c *Case)) {
	defer func() {
		if p := recover(); p != nil {
			// synctest's logical deadlock detector: the bubble's goroutines are leaked and may hold
			// harness locks, so the process must die here; the driver attributes the death to this
			// journalled case (a violation where a hang is one)
			if s := fmt.Sprint(p); strings.Contains(s, "deadlock: all goroutines in bubble are blocked") || strings.Contains(s, "blocked goroutines remain") {
				panic(p)
			}
			// any other panic that escaped the engine's own recover() wrappers is a harness bug
			c.res.Inconcl = append(c.res.Inconcl, fmt.Sprintf("HARNESS-PANIC %v\n%s", p, debug.Stack()))
		}
	}()
	f(c)
}

// Close must be deferred directly by the test function: when the test is unwinding from a panic
// (e.g. synctest's deadlock panic re-raised by runOne) the journal must NOT be marked done, so
// that the driver attributes the death to the journalled case.
func (r *Runner) Close() {
	if p := recover(); p != nil {
		r.journal.Close()
		r.results.Close()
		panic(p)
	}
	fmt.Fprintf(r.journal, "done\n")
	r.journal.Close()
	r.results.Close()
}

// Hash8 is a short stable hash used for fingerprints.
func Hash8(s string) string {
	h := sha256.Sum256([]byte(s))
	return hex.EncodeToString(h[:8])
}

// Meta describes the property's check to the driver (written by every shard, identical).
type Meta struct {
	Level              string                    `json:"level"`
	Rule               string                    `json:"rule"`
	Assumptions        []string                  `json:"assumptions"`
	Gates              map[string]map[string]int `json:"gates,omitempty"` // tier -> counter/max/set name -> minimum
	RaceIsViolation    bool                      `json:"race_is_violation,omitempty"`
	HangIsViolationFor []string                  `json:"hang_is_violation_for,omitempty"`
	Exhaustive         *bool                     `json:"exhaustive,omitempty"`
	ExhaustiveLayers   []string                  `json:"exhaustive_layers,omitempty"`
	Excluded           []string                  `json:"excluded_input_classes,omitempty"`
}

func (r *Runner) Meta(m Meta) {
	b, _ := json.MarshalIndent(m, "", " ")
	_ = os.WriteFile(filepath.Join(r.Env.OutDir, fmt.Sprintf("meta.%d.json", r.Env.Shard)), b, 0o644)
}
