// Package gen is the hostile OTLP generator shared by the monitor engines. It builds
// ptrace.Traces / plog.Logs / pmetric.Metrics through the pdata API from small pools so that
// values repeat, collide and hit zero/boundary cases, which is what pkg/datagen never does.
package gen

import (
	"encoding/hex"
	"fmt"
	"math"
	"math/rand/v2"
	"strings"
	"unicode/utf8"

	"go.opentelemetry.io/collector/pdata/pcommon"
	"go.opentelemetry.io/collector/pdata/plog"
	"go.opentelemetry.io/collector/pdata/pmetric"
	"go.opentelemetry.io/collector/pdata/ptrace"
)

// Domain selects which inputs may be generated.
type Domain int

const (
	// DValid is the domain of C01-C04: valid UTF-8, timestamps <= 2^63-1, nesting <= 16.
	DValid Domain = iota
	// DAny is the domain of C08: everything pdata can hold.
	DAny
)

// Carve lists input classes the generator must avoid because an OPEN known finding covers
// exactly that class (see known_findings.json); the witness layers still exercise them.
type Carve struct {
	NoNearIdenticalContainers bool // D4
	NoZeroPresentHistStats    bool // D6
	NoAllZeroFirstList        bool // D5
	NoZeroOffsetWithBuckets   bool // D10
}

// G is the generator state of one history: its pools persist across the batches of the
// history so that dictionary and schema state of batch k depends on batches 1..k-1.
type G struct {
	R      *rand.Rand
	Domain Domain
	Carve  Carve

	// ZeroBias is the probability that an optional scalar is left at its zero value.
	ZeroBias float64
	// Unique makes names / ids / string values unique per item (cardinality ramps).
	Unique    bool
	uniqueCtr uint64
	// MaxDepth bounds nesting of list/map values.
	MaxDepth int
	// SameAttrBias is the probability that an attribute map is exactly {"same": "x"} (adjacent
	// rows with equal key and value on different parents stress the parent-id encodings).
	SameAttrBias float64

	strs   []string
	keys   []string
	bytesP [][]byte
	ints   []int64
	dbls   []float64
	times  []uint64
	tids   [][16]byte
	sids   [][8]byte
	urls   []string
	// container templates reused across batches (duplicates and near-identical variants)
	resT []pcommon.Resource
	resU []string
	scoT []pcommon.InstrumentationScope
	scoU []string
}

var masterStrings = []string{
	"", "a", "b", "1", "1.0", "true", "false", "1E+00", "null", "0", "-0", " ", "\t", "x,y", "k:v", "a|b", "{", "}", "[", "]",
	"{a:1}", "[1,2]", "a,b:c|d", ",", ":", "|", "\"", "\\", "\x00", "é", "日本語", "𝔘𝔫𝔦", "​", "service.name", "http.method",
	"GET", "POST", "name", "attrs", "resource", strings.Repeat("L", 300), strings.Repeat("é", 150), "a\x00b", "Ａ", "ſ", "ß",
	"i", "İ", "ı", "K", "K", "x", "y", "z", "hello world", "host-1", "host-2", "host-10", "val", "VAL", "Val",
}

var masterInts = []int64{0, 1, -1, 2, 255, 256, 65535, 65536, math.MaxInt32, math.MinInt32, math.MaxInt64, math.MinInt64, 42, 7}

var masterDbls = []float64{0, math.Copysign(0, -1), 1, -1, 1.5, math.Inf(1), math.Inf(-1), math.NaN(), math.Float64frombits(0x7ff8000000000001),
	math.MaxFloat64, math.SmallestNonzeroFloat64, 1e-9, 3.141592653589793, 2, 100}

var masterTimes = []uint64{0, 1, 2, 1000, 1_000_000_000, 1_700_000_000_000_000_000, 1_700_000_000_000_000_001, math.MaxInt64 - 1, math.MaxInt64}

func pick[T any](r *rand.Rand, s []T) T { return s[r.IntN(len(s))] }

func subset[T any](r *rand.Rand, s []T, n int) []T {
	out := make([]T, 0, n)
	for i := 0; i < n; i++ {
		out = append(out, pick(r, s))
	}
	return out
}

// New creates the generator of one history.
func New(r *rand.Rand, d Domain) *G {
	g := &G{R: r, Domain: d, ZeroBias: 0.5, MaxDepth: 3}
	g.strs = subset(r, masterStrings, 3+r.IntN(6))
	g.keys = subset(r, masterStrings, 2+r.IntN(5))
	if r.IntN(3) == 0 {
		g.keys = append(g.keys, "") // the empty key is dropped by the encoder
	}
	g.ints = subset(r, masterInts, 2+r.IntN(4))
	g.dbls = subset(r, masterDbls, 2+r.IntN(4))
	g.times = subset(r, masterTimes, 2+r.IntN(4))
	g.urls = []string{"", "", "https://schema/1", "https://schema/2", pick(r, masterStrings)}
	g.bytesP = [][]byte{{}, {0}, {1}, {0, 0}, {1, 2, 3}, {1, 2, 4}, []byte("abc"), {0xff, 0xfe}}
	if d == DAny {
		g.strs = append(g.strs, "\xff\xfe", "ok\xc3", "\xed\xa0\x80")
		g.keys = append(g.keys, "\xff")
		g.times = append(g.times, math.MaxUint64, 1<<63, 1<<63+5)
		g.urls = append(g.urls, "\xff\xfeurl")
	}
	nt := 2 + r.IntN(3)
	for i := 0; i < nt; i++ {
		var t [16]byte
		switch r.IntN(5) {
		case 0: // all zero
		case 1:
			for j := range t {
				t[j] = 0xff
			}
		default:
			for j := range t {
				t[j] = byte(r.IntN(256))
			}
		}
		g.tids = append(g.tids, t)
		var s [8]byte
		switch r.IntN(5) {
		case 0:
		case 1:
			for j := range s {
				s[j] = 0xff
			}
		default:
			for j := range s {
				s[j] = byte(r.IntN(256))
			}
		}
		g.sids = append(g.sids, s)
	}
	return g
}

func (g *G) zero() bool { return g.R.Float64() < g.ZeroBias }

// Str returns a pooled string, or a unique one in Unique mode.
func (g *G) Str() string {
	if g.Unique && g.R.IntN(4) != 0 {
		g.uniqueCtr++
		return fmt.Sprintf("u%d", g.uniqueCtr)
	}
	return pick(g.R, g.strs)
}

func (g *G) optStr() string {
	if g.zero() {
		return ""
	}
	return g.Str()
}

func (g *G) Key() string { return pick(g.R, g.keys) }

func (g *G) Int() int64 {
	if g.Unique && g.R.IntN(4) != 0 {
		g.uniqueCtr++
		return int64(g.uniqueCtr)
	}
	return pick(g.R, g.ints)
}

func (g *G) Dbl() float64 { return pick(g.R, g.dbls) }

func (g *G) Time() pcommon.Timestamp {
	if g.Unique {
		g.uniqueCtr++
		return pcommon.Timestamp(1_700_000_000_000_000_000 + g.uniqueCtr)
	}
	return pcommon.Timestamp(pick(g.R, g.times))
}

func (g *G) optTime() pcommon.Timestamp {
	if g.zero() {
		return 0
	}
	return g.Time()
}

func (g *G) U32() uint32 {
	return pick(g.R, []uint32{0, 1, 2, 255, 65536, math.MaxUint32})
}

func (g *G) optU32() uint32 {
	if g.zero() {
		return 0
	}
	return g.U32()
}

func (g *G) U64() uint64 {
	return pick(g.R, []uint64{0, 1, 2, 3, 255, 1 << 32, math.MaxUint64, math.MaxInt64})
}

func (g *G) Bytes() []byte {
	if g.Unique && g.R.IntN(4) != 0 {
		g.uniqueCtr++
		return []byte(fmt.Sprintf("b%d", g.uniqueCtr))
	}
	return pick(g.R, g.bytesP)
}

func (g *G) TraceID() pcommon.TraceID {
	if g.Unique && g.R.IntN(4) != 0 {
		g.uniqueCtr++
		var t [16]byte
		for i := 0; i < 8; i++ {
			t[i] = byte(g.uniqueCtr >> (8 * i))
		}
		t[15] = 1
		return t
	}
	return pick(g.R, g.tids)
}

func (g *G) SpanID() pcommon.SpanID {
	if g.Unique && g.R.IntN(4) != 0 {
		g.uniqueCtr++
		var t [8]byte
		for i := 0; i < 8; i++ {
			t[i] = byte(g.uniqueCtr >> (8 * i))
		}
		return t
	}
	return pick(g.R, g.sids)
}

// Value fills v with a random AnyValue of any type; depth bounds nesting.
func (g *G) Value(v pcommon.Value, depth int) {
	n := 8
	if depth >= g.MaxDepth {
		n = 6
	}
	switch g.R.IntN(n) {
	case 0: // unset (dropped at top level, preserved inside containers)
	case 1:
		v.SetStr(g.Str())
	case 2:
		v.SetInt(g.Int())
	case 3:
		v.SetDouble(g.Dbl())
	case 4:
		v.SetBool(g.R.IntN(2) == 0)
	case 5:
		v.SetEmptyBytes().FromRaw(g.Bytes())
	case 6:
		sl := v.SetEmptySlice()
		k := g.R.IntN(4)
		for i := 0; i < k; i++ {
			g.Value(sl.AppendEmpty(), depth+1)
		}
	case 7:
		m := v.SetEmptyMap()
		k := g.R.IntN(4)
		for i := 0; i < k; i++ {
			g.Value(m.PutEmpty(g.Key()), depth+1)
		}
	}
}

// DeepValue builds a value nested exactly d levels deep (d <= 16 in DValid).
func (g *G) DeepValue(v pcommon.Value, d int) {
	cur := v
	for i := 0; i < d; i++ {
		if g.R.IntN(2) == 0 {
			sl := cur.SetEmptySlice()
			if g.R.IntN(2) == 0 {
				sl.AppendEmpty().SetInt(int64(i))
			}
			cur = sl.AppendEmpty()
		} else {
			m := cur.SetEmptyMap()
			if g.R.IntN(2) == 0 {
				m.PutStr("s", g.Str())
			}
			cur = m.PutEmpty(g.Key())
		}
	}
	switch g.R.IntN(4) {
	case 0:
		cur.SetEmptyBytes() // nested empty bytes => decodes as unset
	case 1:
		cur.SetStr("")
	case 2:
		cur.SetEmptyMap()
	}
}

// Attrs fills m with 0..maxN attributes.
func (g *G) Attrs(m pcommon.Map, maxN int) {
	if g.SameAttrBias > 0 && g.R.Float64() < g.SameAttrBias {
		m.PutStr("same", "x")
		if g.R.IntN(3) == 0 {
			m.PutInt("n", 7)
		}
		return
	}
	if g.zero() && g.R.IntN(2) == 0 {
		return
	}
	n := g.R.IntN(maxN + 1)
	for i := 0; i < n; i++ {
		k := g.Key()
		if g.Unique && g.R.IntN(3) == 0 {
			g.uniqueCtr++
			k = fmt.Sprintf("k%d", g.uniqueCtr%300)
		}
		v := m.PutEmpty(k)
		if g.R.IntN(40) == 0 {
			g.DeepValue(v, 1+g.R.IntN(16))
		} else {
			g.Value(v, 0)
		}
	}
}

// ---------------------------------------------------------------- containers

func (g *G) newResource() (pcommon.Resource, string) {
	res := pcommon.NewResource()
	g.Attrs(res.Attributes(), 4)
	res.SetDroppedAttributesCount(g.optU32())
	return res, pick(g.R, g.urls)
}

func (g *G) newScope() (pcommon.InstrumentationScope, string) {
	sc := pcommon.NewInstrumentationScope()
	sc.SetName(g.optStr())
	sc.SetVersion(g.optStr())
	g.Attrs(sc.Attributes(), 3)
	sc.SetDroppedAttributesCount(g.optU32())
	return sc, pick(g.R, g.urls)
}

// confuse rewrites one value into a type-confusable / delimiter-shifted sibling.
func (g *G) confuse(m pcommon.Map) {
	if m.Len() == 0 {
		m.PutStr(g.Key(), "")
		return
	}
	i, target := 0, g.R.IntN(m.Len())
	m.Range(func(k string, v pcommon.Value) bool {
		if i == target {
			switch v.Type() {
			case pcommon.ValueTypeInt:
				v.SetStr(fmt.Sprintf("%d", v.Int()))
			case pcommon.ValueTypeStr:
				s := v.Str()
				switch g.R.IntN(4) {
				case 0:
					v.SetEmptyBytes().FromRaw([]byte(s))
				case 1:
					v.SetStr(s + ",")
				case 2:
					if s == "true" || s == "false" {
						v.SetBool(s == "true")
					} else {
						v.SetStr(strings.ToUpper(s))
					}
				default:
					v.SetEmptySlice().AppendEmpty().SetStr(s)
				}
			case pcommon.ValueTypeBool:
				v.SetStr(fmt.Sprintf("%v", v.Bool()))
			case pcommon.ValueTypeDouble:
				d := v.Double()
				if d == math.Trunc(d) && math.Abs(d) < 1e15 {
					v.SetInt(int64(d))
				} else {
					v.SetStr(fmt.Sprintf("%v", d))
				}
			case pcommon.ValueTypeBytes:
				raw := v.Bytes().AsRaw()
				if utf8.Valid(raw) {
					v.SetStr(string(raw))
				} else {
					v.SetStr(hex.EncodeToString(raw)) // D-valid: strings are valid UTF-8
				}
			case pcommon.ValueTypeEmpty:
				v.SetStr("")
			default:
				v.SetStr(v.AsString())
			}
			return false
		}
		i++
		return true
	})
}

// Resource returns a resource (and its schema URL) drawn from the history's templates:
// an exact duplicate of an earlier one, a near-identical variant, or a fresh one.
func (g *G) Resource(dst pcommon.Resource) string {
	c := g.R.IntN(10)
	switch {
	case len(g.resT) > 0 && c < 4:
		i := g.R.IntN(len(g.resT))
		g.resT[i].CopyTo(dst)
		return g.resU[i]
	case len(g.resT) > 0 && c < 6 && !g.Carve.NoNearIdenticalContainers:
		i := g.R.IntN(len(g.resT))
		g.resT[i].CopyTo(dst)
		u := g.resU[i]
		switch g.R.IntN(4) {
		case 0:
			u = pick(g.R, g.urls)
		case 1:
			dst.SetDroppedAttributesCount(dst.DroppedAttributesCount() + 1)
		default:
			g.confuse(dst.Attributes())
		}
		g.keepRes(dst, u)
		return u
	default:
		res, u := g.newResource()
		res.CopyTo(dst)
		g.keepRes(dst, u)
		return u
	}
}

func (g *G) keepRes(r pcommon.Resource, u string) {
	if len(g.resT) < 6 {
		c := pcommon.NewResource()
		r.CopyTo(c)
		g.resT = append(g.resT, c)
		g.resU = append(g.resU, u)
	}
}

// Scope is the analogue of Resource for instrumentation scopes.
func (g *G) Scope(dst pcommon.InstrumentationScope) string {
	c := g.R.IntN(10)
	switch {
	case len(g.scoT) > 0 && c < 4:
		i := g.R.IntN(len(g.scoT))
		g.scoT[i].CopyTo(dst)
		return g.scoU[i]
	case len(g.scoT) > 0 && c < 6 && !g.Carve.NoNearIdenticalContainers:
		i := g.R.IntN(len(g.scoT))
		g.scoT[i].CopyTo(dst)
		u := g.scoU[i]
		switch g.R.IntN(5) {
		case 0:
			u = pick(g.R, g.urls)
		case 1:
			dst.SetDroppedAttributesCount(dst.DroppedAttributesCount() + 1)
		case 2:
			dst.SetVersion(dst.Version() + "1")
		case 3:
			// move a delimiter between name and version
			dst.SetName(dst.Name() + ",")
		default:
			g.confuse(dst.Attributes())
		}
		g.keepSco(dst, u)
		return u
	default:
		sc, u := g.newScope()
		sc.CopyTo(dst)
		g.keepSco(dst, u)
		return u
	}
}

func (g *G) keepSco(s pcommon.InstrumentationScope, u string) {
	if len(g.scoT) < 6 {
		c := pcommon.NewInstrumentationScope()
		s.CopyTo(c)
		g.scoT = append(g.scoT, c)
		g.scoU = append(g.scoU, u)
	}
}

// shape picks (#resources, #scopes per resource, #items per scope) for about n items.
func (g *G) shape(n int) [][]int {
	if n == 0 {
		switch g.R.IntN(3) {
		case 0:
			return nil
		case 1:
			return [][]int{{}}
		default:
			return [][]int{{0}}
		}
	}
	nr := 1 + g.R.IntN(4)
	out := make([][]int, nr)
	for i := range out {
		ns := 1 + g.R.IntN(3)
		if g.R.IntN(8) == 0 {
			ns = 0
		}
		out[i] = make([]int, ns)
	}
	for k := 0; k < n; k++ {
		i := g.R.IntN(nr)
		if len(out[i]) == 0 {
			out[i] = []int{0}
		}
		out[i][g.R.IntN(len(out[i]))]++
	}
	return out
}

// ---------------------------------------------------------------- traces

func (g *G) Span(s ptrace.Span) {
	s.SetTraceID(g.TraceID())
	s.SetSpanID(g.SpanID())
	if !g.zero() {
		s.SetParentSpanID(g.SpanID())
	}
	if !g.zero() {
		s.TraceState().FromRaw(g.Str())
	}
	if g.Unique {
		s.SetName(g.Str())
	} else {
		s.SetName(g.optStr())
	}
	if !g.zero() {
		k := []ptrace.SpanKind{0, 1, 2, 3, 4, 5}
		if g.Domain == DAny {
			k = append(k, 99, -1)
		}
		s.SetKind(pick(g.R, k))
	}
	st := g.optTime()
	s.SetStartTimestamp(st)
	switch g.R.IntN(4) {
	case 0:
		s.SetEndTimestamp(st)
	case 1:
		s.SetEndTimestamp(g.optTime()) // may be < start
	default:
		if uint64(st) < math.MaxInt64-5000 {
			s.SetEndTimestamp(st + pcommon.Timestamp(g.R.IntN(5000)))
		} else {
			s.SetEndTimestamp(st)
		}
	}
	g.Attrs(s.Attributes(), 5)
	s.SetDroppedAttributesCount(g.optU32())
	s.SetDroppedEventsCount(g.optU32())
	s.SetDroppedLinksCount(g.optU32())
	if !g.zero() {
		c := []ptrace.StatusCode{0, 1, 2}
		if g.Domain == DAny {
			c = append(c, 77)
		}
		s.Status().SetCode(pick(g.R, c))
	}
	if !g.zero() {
		s.Status().SetMessage(g.Str())
	}
	if !g.zero() || g.R.IntN(4) == 0 {
		ne := g.R.IntN(5)
		for i := 0; i < ne; i++ {
			e := s.Events().AppendEmpty()
			e.SetName(g.optStr())
			e.SetTimestamp(g.optTime())
			if g.R.IntN(2) == 0 {
				g.Attrs(e.Attributes(), 3)
			}
			e.SetDroppedAttributesCount(g.optU32())
		}
	}
	if !g.zero() || g.R.IntN(4) == 0 {
		nl := g.R.IntN(5)
		for i := 0; i < nl; i++ {
			l := s.Links().AppendEmpty()
			if !g.zero() {
				l.SetTraceID(g.TraceID())
			}
			if !g.zero() {
				l.SetSpanID(g.SpanID())
			}
			if !g.zero() {
				l.TraceState().FromRaw(g.Str())
			}
			if g.R.IntN(2) == 0 {
				g.Attrs(l.Attributes(), 3)
			}
			l.SetDroppedAttributesCount(g.optU32())
		}
	}
}

// Traces generates a batch with about n spans.
func (g *G) Traces(n int) ptrace.Traces {
	td := ptrace.NewTraces()
	for _, scopes := range g.shape(n) {
		rs := td.ResourceSpans().AppendEmpty()
		rs.SetSchemaUrl(g.Resource(rs.Resource()))
		for _, k := range scopes {
			ss := rs.ScopeSpans().AppendEmpty()
			ss.SetSchemaUrl(g.Scope(ss.Scope()))
			for i := 0; i < k; i++ {
				g.Span(ss.Spans().AppendEmpty())
			}
		}
	}
	return td
}

// ---------------------------------------------------------------- logs

func (g *G) LogRecord(l plog.LogRecord) {
	l.SetTimestamp(g.optTime())
	l.SetObservedTimestamp(g.optTime())
	if !g.zero() {
		l.SetTraceID(g.TraceID())
	}
	if !g.zero() {
		l.SetSpanID(g.SpanID())
	}
	if !g.zero() {
		sv := []plog.SeverityNumber{0, 1, 9, 17, 24}
		if g.Domain == DAny {
			sv = append(sv, 1000, -5)
		}
		l.SetSeverityNumber(pick(g.R, sv))
	}
	l.SetSeverityText(g.optStr())
	if !g.zero() || g.R.IntN(3) == 0 {
		if g.R.IntN(30) == 0 {
			g.DeepValue(l.Body(), 1+g.R.IntN(16))
		} else {
			g.Value(l.Body(), 0)
		}
	}
	g.Attrs(l.Attributes(), 5)
	l.SetDroppedAttributesCount(g.optU32())
	if !g.zero() {
		l.SetFlags(plog.LogRecordFlags(g.U32()))
	}
}

func (g *G) Logs(n int) plog.Logs {
	ld := plog.NewLogs()
	for _, scopes := range g.shape(n) {
		rl := ld.ResourceLogs().AppendEmpty()
		rl.SetSchemaUrl(g.Resource(rl.Resource()))
		for _, k := range scopes {
			sl := rl.ScopeLogs().AppendEmpty()
			sl.SetSchemaUrl(g.Scope(sl.Scope()))
			for i := 0; i < k; i++ {
				g.LogRecord(sl.LogRecords().AppendEmpty())
			}
		}
	}
	return ld
}

// ---------------------------------------------------------------- metrics

func (g *G) exemplars(es pmetric.ExemplarSlice) {
	if g.zero() {
		return
	}
	n := g.R.IntN(4)
	for i := 0; i < n; i++ {
		e := es.AppendEmpty()
		e.SetTimestamp(g.optTime())
		switch g.R.IntN(3) {
		case 0:
			e.SetIntValue(g.Int())
		case 1:
			e.SetDoubleValue(g.Dbl())
		}
		if !g.zero() {
			e.SetTraceID(g.TraceID())
		}
		if !g.zero() {
			e.SetSpanID(g.SpanID())
		}
		if g.R.IntN(2) == 0 {
			g.Attrs(e.FilteredAttributes(), 3)
		}
	}
}

func (g *G) flags() pmetric.DataPointFlags {
	if g.zero() {
		return 0
	}
	return pmetric.DataPointFlags(pick(g.R, []uint32{0, 1, 2, 3, math.MaxUint32}))
}

func (g *G) numberPoints(dps pmetric.NumberDataPointSlice, n int) {
	for i := 0; i < n; i++ {
		dp := dps.AppendEmpty()
		g.Attrs(dp.Attributes(), 4)
		dp.SetStartTimestamp(g.optTime())
		dp.SetTimestamp(g.optTime())
		switch g.R.IntN(3) {
		case 0:
			dp.SetIntValue(g.Int())
		case 1:
			dp.SetDoubleValue(g.Dbl())
		}
		dp.SetFlags(g.flags())
		g.exemplars(dp.Exemplars())
	}
}

func (g *G) u64List(maxN int) []uint64 {
	n := g.R.IntN(maxN + 1)
	out := make([]uint64, n)
	mode := g.R.IntN(3)
	if g.Carve.NoAllZeroFirstList && mode == 0 {
		mode = 1
	}
	for i := range out {
		switch mode {
		case 0: // all zero
		case 1:
			out[i] = g.U64()
		default:
			out[i] = uint64(g.R.IntN(3))
		}
	}
	if g.Carve.NoAllZeroFirstList && n > 0 {
		out[0] = 1 + uint64(g.R.IntN(5))
	}
	return out
}

func (g *G) f64List(maxN int) []float64 {
	n := g.R.IntN(maxN + 1)
	out := make([]float64, n)
	mode := g.R.IntN(3)
	if g.Carve.NoAllZeroFirstList && mode == 0 {
		mode = 1
	}
	for i := range out {
		switch mode {
		case 0:
		case 1:
			out[i] = g.Dbl()
		default:
			out[i] = float64(i)
		}
	}
	if g.Carve.NoAllZeroFirstList && n > 0 {
		out[0] = 0.5
	}
	return out
}

func (g *G) optDbl(set func(float64)) {
	switch g.R.IntN(3) {
	case 0: // absent
	case 1:
		if g.Carve.NoZeroPresentHistStats {
			set(1.25)
		} else {
			set(0) // present but zero
		}
	default:
		d := g.Dbl()
		if g.Carve.NoZeroPresentHistStats && d == 0 {
			d = 2.5
		}
		set(d)
	}
}

func (g *G) histPoints(dps pmetric.HistogramDataPointSlice, n int) {
	for i := 0; i < n; i++ {
		dp := dps.AppendEmpty()
		g.Attrs(dp.Attributes(), 4)
		dp.SetStartTimestamp(g.optTime())
		dp.SetTimestamp(g.optTime())
		if !g.zero() {
			dp.SetCount(g.U64())
		}
		g.optDbl(dp.SetSum)
		g.optDbl(dp.SetMin)
		g.optDbl(dp.SetMax)
		if !g.zero() || g.R.IntN(3) == 0 {
			dp.BucketCounts().FromRaw(g.u64List(5))
		}
		if !g.zero() || g.R.IntN(3) == 0 {
			dp.ExplicitBounds().FromRaw(g.f64List(4))
		}
		dp.SetFlags(g.flags())
		g.exemplars(dp.Exemplars())
	}
}

func (g *G) ehBuckets(b pmetric.ExponentialHistogramDataPointBuckets) {
	if g.zero() && g.R.IntN(2) == 0 {
		return
	}
	off := int32(0)
	if !g.zero() {
		off = pick(g.R, []int32{0, 1, -1, 5, math.MaxInt32, math.MinInt32})
	}
	bc := g.u64List(5)
	if g.Carve.NoZeroOffsetWithBuckets && off == 0 && len(bc) > 0 {
		off = 3
	}
	b.SetOffset(off)
	b.BucketCounts().FromRaw(bc)
}

func (g *G) expHistPoints(dps pmetric.ExponentialHistogramDataPointSlice, n int) {
	for i := 0; i < n; i++ {
		dp := dps.AppendEmpty()
		g.Attrs(dp.Attributes(), 4)
		dp.SetStartTimestamp(g.optTime())
		dp.SetTimestamp(g.optTime())
		if !g.zero() {
			dp.SetCount(g.U64())
		}
		g.optDbl(dp.SetSum)
		g.optDbl(dp.SetMin)
		g.optDbl(dp.SetMax)
		if !g.zero() {
			dp.SetScale(pick(g.R, []int32{0, 1, -1, 20, math.MaxInt32, math.MinInt32}))
		}
		if !g.zero() {
			dp.SetZeroCount(g.U64())
		}
		if !g.zero() {
			dp.SetZeroThreshold(g.Dbl())
		}
		g.ehBuckets(dp.Positive())
		g.ehBuckets(dp.Negative())
		dp.SetFlags(g.flags())
		g.exemplars(dp.Exemplars())
	}
}

func (g *G) summaryPoints(dps pmetric.SummaryDataPointSlice, n int) {
	for i := 0; i < n; i++ {
		dp := dps.AppendEmpty()
		g.Attrs(dp.Attributes(), 4)
		dp.SetStartTimestamp(g.optTime())
		dp.SetTimestamp(g.optTime())
		if !g.zero() {
			dp.SetCount(g.U64())
		}
		if !g.zero() {
			dp.SetSum(g.Dbl())
		}
		if !g.zero() || g.R.IntN(3) == 0 {
			nq := g.R.IntN(4)
			for q := 0; q < nq; q++ {
				qv := dp.QuantileValues().AppendEmpty()
				if !g.zero() {
					qv.SetQuantile(g.Dbl())
				}
				if !g.zero() {
					qv.SetValue(g.Dbl())
				}
			}
		}
		dp.SetFlags(g.flags())
	}
}

func (g *G) temporality() pmetric.AggregationTemporality {
	t := []pmetric.AggregationTemporality{0, 1, 2}
	if g.Domain == DAny {
		t = append(t, 9)
	}
	if g.zero() {
		return 0
	}
	return pick(g.R, t)
}

// Metric fills one metric with about n data points of a random type (or leaves it empty).
func (g *G) Metric(m pmetric.Metric, n int, types []int) {
	if g.Unique {
		m.SetName(g.Str())
	} else {
		m.SetName(g.optStr())
	}
	m.SetDescription(g.optStr())
	m.SetUnit(g.optStr())
	switch pick(g.R, types) {
	case 0: // empty metric
	case 1:
		g.numberPoints(m.SetEmptyGauge().DataPoints(), n)
	case 2:
		s := m.SetEmptySum()
		s.SetAggregationTemporality(g.temporality())
		s.SetIsMonotonic(!g.zero())
		g.numberPoints(s.DataPoints(), n)
	case 3:
		h := m.SetEmptyHistogram()
		h.SetAggregationTemporality(g.temporality())
		g.histPoints(h.DataPoints(), n)
	case 4:
		h := m.SetEmptyExponentialHistogram()
		h.SetAggregationTemporality(g.temporality())
		g.expHistPoints(h.DataPoints(), n)
	case 5:
		g.summaryPoints(m.SetEmptySummary().DataPoints(), n)
	}
}

// AllMetricTypes is the default type menu (0 = empty metric).
var AllMetricTypes = []int{0, 1, 1, 2, 2, 3, 3, 4, 4, 5, 5}

// Metrics generates a batch with about n metrics, each with 0..3 data points.
func (g *G) Metrics(n int, types []int) pmetric.Metrics {
	md := pmetric.NewMetrics()
	if types == nil {
		types = AllMetricTypes
	}
	for _, scopes := range g.shape(n) {
		rm := md.ResourceMetrics().AppendEmpty()
		rm.SetSchemaUrl(g.Resource(rm.Resource()))
		for _, k := range scopes {
			sm := rm.ScopeMetrics().AppendEmpty()
			sm.SetSchemaUrl(g.Scope(sm.Scope()))
			for i := 0; i < k; i++ {
				g.Metric(sm.Metrics().AppendEmpty(), g.R.IntN(4), types)
			}
		}
	}
	return md
}

// KeyPool returns the attribute keys this history draws from.
func (g *G) KeyPool() []string { return g.keys }

// AddStrings adds strings to the value pool (e.g. an exhaustive class).
func (g *G) AddStrings(s ...string) { g.strs = append(g.strs, s...) }

// AddBytes adds byte strings to the bytes pool.
func (g *G) AddBytes(b ...[]byte) { g.bytesP = append(g.bytesP, b...) }
