// Package canon is the canonical multiset comparator (DESIGN §5.2): telemetry is serialised
// with pdata's own OTLP/JSON marshaler, parsed into a generic tree and flattened into a
// multiset of item records canon(resource) ‖ canon(scope) ‖ canon(item). Everything pdata
// serialises is compared unless a path-addressed rule strips it (closed world).
package canon

import (
	"bytes"
	"encoding/json"
	"fmt"
	"sort"
	"strings"

	"go.opentelemetry.io/collector/pdata/plog"
	"go.opentelemetry.io/collector/pdata/pmetric"
	"go.opentelemetry.io/collector/pdata/ptrace"
)

type Signal int

const (
	Traces Signal = iota
	Logs
	Metrics
)

func (s Signal) String() string { return [...]string{"traces", "logs", "metrics"}[s] }

type spec struct {
	top, scopes, items string
}

var specs = map[Signal]spec{
	Traces:  {"resourceSpans", "scopeSpans", "spans"},
	Logs:    {"resourceLogs", "scopeLogs", "logRecords"},
	Metrics: {"resourceMetrics", "scopeMetrics", "metrics"},
}

// fields outside docs/data_model.md, addressed by path from the item root
var stripPaths = map[Signal]map[string]bool{
	Traces: {"I/flags": true, "I/links[]/flags": true, "R/resource/entityRefs": true},
	Logs:   {"I/eventName": true, "R/resource/entityRefs": true},
	Metrics: {"I/metadata": true, "R/resource/entityRefs": true,
		// EXP_HISTOGRAM_DATA_POINTS has no zero_threshold column in docs/data_model.md
		"I/exponentialHistogram/dataPoints[]/zeroThreshold": true},
}

// lists whose order is not significant (multisets)
func isMultisetPath(p string) bool {
	return p == "I/events" || p == "I/links" || strings.HasSuffix(p, "/dataPoints") || strings.HasSuffix(p, "/exemplars")
}

func isAttrPath(p string) bool {
	return strings.HasSuffix(p, "/attributes") || strings.HasSuffix(p, "/filteredAttributes")
}

// Item is one flattened record.
type Item struct {
	Canon string // canonical JSON
	Tree  any
}

// Set is a multiset of items.
type Set struct {
	Signal Signal
	Items  []Item
}

func parse(b []byte) (any, error) {
	d := json.NewDecoder(bytes.NewReader(b))
	d.UseNumber()
	var v any
	if err := d.Decode(&v); err != nil {
		return nil, err
	}
	return v, nil
}

func FromTraces(td ptrace.Traces) (*Set, error) {
	b, err := (&ptrace.JSONMarshaler{}).MarshalTraces(td)
	if err != nil {
		return nil, err
	}
	return fromJSON(Traces, b)
}

func FromLogs(ld plog.Logs) (*Set, error) {
	b, err := (&plog.JSONMarshaler{}).MarshalLogs(ld)
	if err != nil {
		return nil, err
	}
	return fromJSON(Logs, b)
}

func FromMetrics(md pmetric.Metrics) (*Set, error) {
	b, err := (&pmetric.JSONMarshaler{}).MarshalMetrics(md)
	if err != nil {
		return nil, err
	}
	return fromJSON(Metrics, b)
}

func asMap(v any) map[string]any {
	m, _ := v.(map[string]any)
	return m
}

func asList(v any) []any {
	l, _ := v.([]any)
	return l
}

func fromJSON(sig Signal, b []byte) (*Set, error) {
	root, err := parse(b)
	if err != nil {
		return nil, fmt.Errorf("canon: pdata JSON does not parse: %w", err)
	}
	sp := specs[sig]
	out := &Set{Signal: sig}
	for _, r := range asList(asMap(root)[sp.top]) {
		rm := asMap(r)
		rtree := map[string]any{}
		for k, v := range rm {
			if k != sp.scopes {
				rtree[k] = v
			}
		}
		rn := norm(sig, "R", rtree)
		for _, s := range asList(rm[sp.scopes]) {
			sm := asMap(s)
			stree := map[string]any{}
			for k, v := range sm {
				if k != sp.items {
					stree[k] = v
				}
			}
			sn := norm(sig, "S", stree)
			for _, it := range asList(sm[sp.items]) {
				tree := map[string]any{"R": rn, "S": sn, "I": norm(sig, "I", it)}
				out.Items = append(out.Items, Item{Canon: encode(tree), Tree: tree})
			}
		}
	}
	sort.Slice(out.Items, func(i, j int) bool { return out.Items[i].Canon < out.Items[j].Canon })
	return out, nil
}

func encode(v any) string {
	// encoding/json sorts map keys; json.Number is written verbatim
	b, err := json.Marshal(v)
	if err != nil {
		return fmt.Sprintf("!!%v", err)
	}
	return string(b)
}

func normNumber(n json.Number) any {
	s := string(n)
	if s == "-0" || s == "-0.0" || s == "-0e+00" {
		return json.Number("0")
	}
	return n
}

// normValue canonicalises an AnyValue object. nested is true inside list / kvlist values.
func normValue(v any, nested bool) any {
	m := asMap(v)
	if m == nil {
		return map[string]any{}
	}
	out := map[string]any{}
	for k, x := range m {
		switch k {
		case "bytesValue":
			// jsonpb writes a nil byte slice as null and an empty one as "": same OTLP value
			if x == nil {
				x = ""
			}
			if s, ok := x.(string); ok && s == "" && nested {
				return map[string]any{} // documented: nested empty bytes decode as unset
			}
			out[k] = x
		case "doubleValue":
			if n, ok := x.(json.Number); ok {
				out[k] = normNumber(n)
			} else {
				out[k] = x // "NaN", "Infinity", "-Infinity"
			}
		case "arrayValue":
			vals := asList(asMap(x)["values"])
			nl := make([]any, 0, len(vals))
			for _, e := range vals {
				nl = append(nl, normValue(e, true))
			}
			out[k] = map[string]any{"values": nl}
		case "kvlistValue":
			vals := asList(asMap(x)["values"])
			nl := make([]any, 0, len(vals))
			for _, e := range vals {
				em := asMap(e)
				key, _ := em["key"].(string)
				nl = append(nl, map[string]any{"key": key, "value": normValue(em["value"], true)})
			}
			sort.SliceStable(nl, func(i, j int) bool { return encode(nl[i]) < encode(nl[j]) })
			out[k] = map[string]any{"values": nl}
		default:
			out[k] = x
		}
	}
	return out
}

func isUnset(v any) bool {
	m, ok := v.(map[string]any)
	return !ok || len(m) == 0
}

func normAttrs(l []any) []any {
	out := make([]any, 0, len(l))
	for _, e := range l {
		em := asMap(e)
		key, _ := em["key"].(string)
		if key == "" {
			continue // documented: empty key dropped
		}
		val := normValue(em["value"], false)
		if isUnset(val) {
			continue // documented: unset value dropped
		}
		out = append(out, map[string]any{"key": key, "value": val})
	}
	sort.SliceStable(out, func(i, j int) bool { return encode(out[i]) < encode(out[j]) })
	return out
}

func norm(sig Signal, path string, v any) any {
	switch x := v.(type) {
	case map[string]any:
		out := map[string]any{}
		for k, c := range x {
			p := path + "/" + k
			if stripPaths[sig][p] {
				continue
			}
			var n any
			switch {
			case isAttrPath(p):
				n = normAttrs(asList(c))
			case p == "I/body":
				n = normValue(c, false)
			default:
				n = norm(sig, p, c)
			}
			if l, ok := n.([]any); ok && len(l) == 0 {
				continue // empty list == absent (jsonpb omits empty repeated fields)
			}
			out[k] = n
		}
		return out
	case []any:
		out := make([]any, 0, len(x))
		for _, c := range x {
			out = append(out, norm(sig, path+"[]", c))
		}
		if isMultisetPath(path) {
			sort.SliceStable(out, func(i, j int) bool { return encode(out[i]) < encode(out[j]) })
		}
		return out
	case json.Number:
		return normNumber(x)
	default:
		return v
	}
}

// Merge returns the multiset union (a consumer may return several pdata values per batch).
func Merge(sets ...*Set) *Set {
	if len(sets) == 0 {
		return &Set{}
	}
	out := &Set{Signal: sets[0].Signal}
	for _, s := range sets {
		out.Items = append(out.Items, s.Items...)
	}
	sort.Slice(out.Items, func(i, j int) bool { return out.Items[i].Canon < out.Items[j].Canon })
	return out
}

// Hash-free equality.
func Equal(a, b *Set) bool {
	if len(a.Items) != len(b.Items) {
		return false
	}
	for i := range a.Items {
		if a.Items[i].Canon != b.Items[i].Canon {
			return false
		}
	}
	return true
}

// Diff describes how got differs from want.
type Diff struct {
	Abstract []string // value-abstracted descriptors (stable; used as signatures)
	Concrete []string // with literal values (witness for a human)
}

func (d *Diff) Empty() bool { return d == nil || len(d.Abstract) == 0 }

// Signature is the sorted, de-duplicated abstract descriptor list (at most n entries).
func (d *Diff) Signature(n int) string {
	seen := map[string]bool{}
	var u []string
	for _, a := range d.Abstract {
		if !seen[a] {
			seen[a] = true
			u = append(u, a)
		}
	}
	sort.Strings(u)
	if len(u) > n {
		u = append(u[:n], fmt.Sprintf("(+%d more)", len(u)-n))
	}
	return strings.Join(u, "; ")
}

// Compare returns nil when the multisets are equal, else a Diff.
func Compare(want, got *Set) *Diff {
	if Equal(want, got) {
		return nil
	}
	d := &Diff{}
	sig := want.Signal.String()
	// multiset difference
	var uw, ug []Item
	i, j := 0, 0
	for i < len(want.Items) && j < len(got.Items) {
		switch {
		case want.Items[i].Canon == got.Items[j].Canon:
			i++
			j++
		case want.Items[i].Canon < got.Items[j].Canon:
			uw = append(uw, want.Items[i])
			i++
		default:
			ug = append(ug, got.Items[j])
			j++
		}
	}
	uw = append(uw, want.Items[i:]...)
	ug = append(ug, got.Items[j:]...)
	if len(want.Items) != len(got.Items) {
		cls := "fewer"
		if len(got.Items) > len(want.Items) {
			cls = "more"
		}
		d.Abstract = append(d.Abstract, fmt.Sprintf("%s: item count %s", sig, cls))
		d.Concrete = append(d.Concrete, fmt.Sprintf("%s: item count %d -> %d", sig, len(want.Items), len(got.Items)))
	}
	// pair each unmatched expected item with the closest unmatched decoded item
	const lim = 24
	if len(uw) > lim {
		uw = uw[:lim]
	}
	used := make([]bool, len(ug))
	for _, w := range uw {
		best, bestN := -1, 1<<30
		var bestA, bestC []string
		for k, g := range ug {
			if used[k] || k > 4*lim {
				continue
			}
			var a, c []string
			treeDiff("", w.Tree, g.Tree, &a, &c)
			if len(a) < bestN {
				best, bestN, bestA, bestC = k, len(a), a, c
			}
		}
		if best < 0 {
			d.Abstract = append(d.Abstract, sig+": item lost")
			d.Concrete = append(d.Concrete, sig+": item lost: "+clip(w.Canon, 300))
			continue
		}
		used[best] = true
		for _, a := range bestA {
			d.Abstract = append(d.Abstract, sig+": "+a)
		}
		for _, c := range bestC {
			d.Concrete = append(d.Concrete, sig+": "+c)
		}
	}
	for k, g := range ug {
		if !used[k] && len(uw) < lim {
			d.Abstract = append(d.Abstract, sig+": item invented")
			d.Concrete = append(d.Concrete, sig+": item invented: "+clip(g.Canon, 300))
		}
	}
	if len(d.Abstract) == 0 {
		d.Abstract = append(d.Abstract, sig+": multisets differ")
	}
	return d
}

func clip(s string, n int) string {
	if len(s) > n {
		return s[:n] + "…"
	}
	return s
}

func class(v any) string {
	switch x := v.(type) {
	case nil:
		return "<absent>"
	case json.Number:
		if x == "0" {
			return "zero"
		}
		return "num"
	case string:
		if x == "" || x == "0" {
			return "zero"
		}
		return "str"
	case bool:
		return "bool"
	case []any:
		return "list"
	case map[string]any:
		if len(x) == 0 {
			return "{}"
		}
		return "obj"
	}
	return "?"
}

func lit(v any) string {
	if v == nil {
		return "<absent>"
	}
	return clip(encode(v), 60)
}

func treeDiff(path string, w, g any, abs, con *[]string) {
	if encode(w) == encode(g) {
		return
	}
	wm, wok := w.(map[string]any)
	gm, gok := g.(map[string]any)
	if wok && gok {
		keys := map[string]bool{}
		for k := range wm {
			keys[k] = true
		}
		for k := range gm {
			keys[k] = true
		}
		ks := make([]string, 0, len(keys))
		for k := range keys {
			ks = append(ks, k)
		}
		sort.Strings(ks)
		for _, k := range ks {
			wv, wh := wm[k]
			gv, gh := gm[k]
			switch {
			case wh && gh:
				treeDiff(path+"/"+k, wv, gv, abs, con)
			case wh:
				*abs = append(*abs, fmt.Sprintf("%s/%s %s -> <absent>", path, k, class(wv)))
				*con = append(*con, fmt.Sprintf("%s/%s %s -> <absent>", path, k, lit(wv)))
			default:
				*abs = append(*abs, fmt.Sprintf("%s/%s <absent> -> %s", path, k, class(gv)))
				*con = append(*con, fmt.Sprintf("%s/%s <absent> -> %s", path, k, lit(gv)))
			}
		}
		return
	}
	wl, wok := w.([]any)
	gl, gok := g.([]any)
	if wok && gok {
		if len(wl) != len(gl) {
			*abs = append(*abs, fmt.Sprintf("%s[] length differs", path))
			*con = append(*con, fmt.Sprintf("%s[] length %d -> %d: %s -> %s", path, len(wl), len(gl), lit(w), lit(g)))
			return
		}
		for i := range wl {
			treeDiff(path+"[]", wl[i], gl[i], abs, con)
		}
		return
	}
	*abs = append(*abs, fmt.Sprintf("%s %s -> %s", path, class(w), class(g)))
	*con = append(*con, fmt.Sprintf("%s %s -> %s", path, lit(w), lit(g)))
}

// Hash returns a short digest of the multiset (used by C16 and the metamorphic checks).
func (s *Set) Hash() string {
	var sb strings.Builder
	for _, it := range s.Items {
		sb.WriteString(it.Canon)
		sb.WriteByte('\n')
	}
	return fmt.Sprintf("%d:%x", len(s.Items), fnv64(sb.String()))
}

func fnv64(s string) uint64 {
	var h uint64 = 1469598103934665603
	for i := 0; i < len(s); i++ {
		h ^= uint64(s[i])
		h *= 1099511628211
	}
	return h
}
