module verif/common

go 1.26
