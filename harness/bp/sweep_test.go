package bp

import (
	"fmt"
	"sort"
	"testing"
	"time"

	"verif/common/vc"
)

// Systematic schedule perturbation (the bubble layers draw PRNG delay tables; this one is an
// enumeration): a base scenario is run once WITHOUT any hook delay, the hook hits it produced are
// listed as (point, k-th hit), and the scenario is then re-run once per (hit, duration) with exactly
// that one hit held back by exactly that virtual duration - every other goroutine gets to run first,
// the timer may expire in the window, an export may finish in it, a cancellation may land in it.
// After the singles, PRNG-chosen PAIRS of hits are delayed together. Every re-run is judged by the
// property's own offline oracle over its boundary log.

var callerSidePoints = map[string]bool{"consume.before_enqueue": true, "consume.enqueued": true, "wait.response": true, "multi.miss_before_lock": true}

func hookHitsOf(run *Run, callerSide bool) []string {
	n := map[string]int{}
	var keys []string
	for _, e := range run.log {
		if e.Kind != "hook" {
			continue
		}
		k := n[e.Point]
		n[e.Point]++
		if !callerSide && callerSidePoints[e.Point] {
			continue
		}
		keys = append(keys, fmt.Sprintf("%s#%d", e.Point, k))
	}
	return keys
}

func sweepDurations(sc *Scenario) []time.Duration {
	period := sc.Cfg.Timeout
	if period == 0 {
		period = time.Millisecond
	}
	set := map[time.Duration]bool{time.Nanosecond: true, period / 2: true, period + time.Nanosecond: true}
	var maxLat time.Duration
	for _, l := range sc.Latency {
		if l > maxLat {
			maxLat = l
		}
	}
	if maxLat > 0 && maxLat < time.Minute {
		set[maxLat+time.Nanosecond] = true
		set[maxLat/2] = true
	}
	var ds []time.Duration
	for d := range set {
		if d > 0 {
			ds = append(ds, d)
		}
	}
	sort.Slice(ds, func(i, j int) bool { return ds[i] < ds[j] })
	return ds
}

// delaySweep runs the base and its perturbations; post judges each run. Returns the number of re-runs.
func delaySweep(t *testing.T, c *vc.Case, sc *Scenario, seed uint64, callerSide bool, maxSingles, pairs int, post func(run *Run, err error, label string)) int {
	sc.HookDelays = nil
	sc.DelayAt = nil
	base := NewRun(sc, seed)
	var err error
	runBubble(t, func() { _, err = base.Exec() })
	post(base, err, sc.Label+"-base")
	if err != nil {
		return 0
	}
	hits := hookHitsOf(base, callerSide)
	ds := sweepDurations(sc)
	type one struct {
		key string
		d   time.Duration
	}
	var singles []one
	for _, h := range hits {
		for _, d := range ds {
			singles = append(singles, one{h, d})
		}
	}
	// too many: keep an evenly spread subset (deterministic)
	if len(singles) > maxSingles {
		var kept []one
		for i := 0; i < maxSingles; i++ {
			kept = append(kept, singles[i*len(singles)/maxSingles])
		}
		singles = kept
	}
	runs := 0
	for _, s := range singles {
		sc2 := *sc
		sc2.DelayAt = map[string]time.Duration{s.key: s.d}
		sc2.Label = fmt.Sprintf("%s-delay[%s=%v]", sc.Label, s.key, s.d)
		run := NewRun(&sc2, seed)
		runBubble(t, func() { _, err = run.Exec() })
		post(run, err, sc2.Label)
		runs++
		c.Count("delay_sweep_single_delays_enumerated", 1)
	}
	if len(hits) >= 2 {
		for i := 0; i < pairs; i++ {
			a := hits[c.R.IntN(len(hits))]
			b := hits[c.R.IntN(len(hits))]
			if a == b {
				continue
			}
			sc2 := *sc
			sc2.DelayAt = map[string]time.Duration{a: ds[c.R.IntN(len(ds))], b: ds[c.R.IntN(len(ds))]}
			sc2.Label = fmt.Sprintf("%s-delay2[%s=%v,%s=%v]", sc.Label, a, sc2.DelayAt[a], b, sc2.DelayAt[b])
			run := NewRun(&sc2, seed)
			runBubble(t, func() { _, err = run.Exec() })
			post(run, err, sc2.Label)
			runs++
			c.Count("delay_sweep_delay_pairs_sampled", 1)
		}
	}
	c.Count("delay_sweep_bases", 1)
	c.Max("max_hook_hits_of_a_sweep_base", int64(len(hits)))
	if c.Idx < 4 {
		c.Sample(map[string]any{"layer": "delay-sweep", "hook_hits_of_base": len(hits), "durations": fmt.Sprint(ds), "single_delays": len(singles), "pairs": pairs, "base": sc.Describe()})
	}
	return runs
}
