package bp

import (
	"context"
	"encoding/json"
	"errors"
	"fmt"
	"sort"
	"strings"
	"time"

	sdktrace "go.opentelemetry.io/otel/sdk/trace"
)

// Finding is one refutation found by an offline checker over the event log.
type Finding struct {
	Prop   string
	Sig    string
	Detail string
}

type expRec struct {
	begin, end *Ev
}

type reqRec struct {
	spec   *ReqSpec
	call   *Ev
	enq    *Ev
	ret    *Ev
	cancel *Ev
	stuck  bool
}

// Index is the log regrouped per export and per request.
type Index struct {
	r        *Run
	exports  map[int]*expRec
	expOrder []int
	reqs     map[string]*reqRec
	shutCall *Ev
	shutRet  *Ev
	uidExps  map[string][]int // uid -> exports that carried it
}

func BuildIndex(r *Run) *Index {
	ix := &Index{r: r, exports: map[int]*expRec{}, reqs: map[string]*reqRec{}, uidExps: map[string][]int{}}
	for _, spec := range r.Sc.Reqs {
		ix.reqs[spec.ID()] = &reqRec{spec: spec}
	}
	for i := range r.log {
		e := &r.log[i]
		switch e.Kind {
		case "export_begin":
			ix.exports[e.Export] = &expRec{begin: e}
			ix.expOrder = append(ix.expOrder, e.Export)
			for _, it := range e.Items {
				ix.uidExps[it.UID] = append(ix.uidExps[it.UID], e.Export)
			}
		case "export_end":
			if x := ix.exports[e.Export]; x != nil {
				x.end = e
			}
		case "call":
			ix.reqs[e.Req].call = e
		case "enq":
			if q := ix.reqs[e.Req]; q != nil {
				q.enq = e
			}
		case "ret":
			ix.reqs[e.Req].ret = e
		case "cancel":
			if ix.reqs[e.Req].cancel == nil {
				ix.reqs[e.Req].cancel = e
			}
		case "stuck":
			ix.reqs[e.Req].stuck = true
		case "shutdown_call":
			ix.shutCall = e
		case "shutdown_ret":
			ix.shutRet = e
		}
	}
	return ix
}

// reqExports returns the exports that carried any uid of a request.
func (ix *Index) reqExports(id string) []int {
	set := map[int]bool{}
	for _, u := range ix.r.Built[id].UIDs {
		for _, x := range ix.uidExps[u] {
			set[x] = true
		}
	}
	out := make([]int, 0, len(set))
	for x := range set {
		out = append(out, x)
	}
	sort.Ints(out)
	return out
}

func isRefused(e *Ev) bool {
	return e != nil && e.Err != nil && strings.Contains(e.Err.Error(), "too many batcher")
}

func (q *reqRec) hasDeadline() bool { return q.spec.Deadline >= 0 }

// ctxEnded reports whether the request's own context ended (cancel or deadline) before it returned.
func (q *reqRec) ctxEnded() bool {
	if q.cancel != nil && (q.ret == nil || q.cancel.Seq < q.ret.Seq) {
		return true
	}
	if q.hasDeadline() && q.ret != nil && q.call != nil && q.ret.VT-q.call.VT >= q.spec.Deadline {
		return true
	}
	return false
}

// sharedCancel: contexts shared by a group are cancelled together.
func (ix *Index) groupCancelled(q *reqRec) bool {
	if q.ctxEnded() {
		return true
	}
	if q.spec.CtxGroup < 0 {
		return false
	}
	for _, o := range ix.reqs {
		if o.spec.Caller == q.spec.Caller && o.spec.CtxGroup == q.spec.CtxGroup && o.cancel != nil && (q.ret == nil || o.cancel.Seq < q.ret.Seq) {
			return true
		}
	}
	return false
}

func firstDiffPath(a, b string) string {
	var x, y any
	if json.Unmarshal([]byte(a), &x) != nil || json.Unmarshal([]byte(b), &y) != nil {
		return "?"
	}
	var walk func(p string, x, y any) string
	walk = func(p string, x, y any) string {
		switch xv := x.(type) {
		case map[string]any:
			yv, ok := y.(map[string]any)
			if !ok {
				return p
			}
			keys := map[string]bool{}
			for k := range xv {
				keys[k] = true
			}
			for k := range yv {
				keys[k] = true
			}
			ks := make([]string, 0, len(keys))
			for k := range keys {
				ks = append(ks, k)
			}
			sort.Strings(ks)
			for _, k := range ks {
				if d := walk(p+"/"+k, xv[k], yv[k]); d != "" {
					return d
				}
			}
			return ""
		case []any:
			yv, ok := y.([]any)
			if !ok || len(xv) != len(yv) {
				return p + "[]"
			}
			for i := range xv {
				if d := walk(p+"[]", xv[i], yv[i]); d != "" {
					return d
				}
			}
			return ""
		default:
			if fmt.Sprint(x) != fmt.Sprint(y) {
				return p
			}
			return ""
		}
	}
	return walk("", x, y)
}

// ---------------------------------------------------------------- C05

func CheckDelivery(ix *Index) (out []Finding, obs map[string]int64) {
	r := ix.r
	obs = map[string]int64{}
	count := map[string]int{}
	for _, n := range ix.expOrder {
		x := ix.exports[n]
		if ix.shutRet != nil && x.begin.Seq > ix.shutRet.Seq {
			out = append(out, Finding{"C05", "export after Shutdown returned", fmt.Sprintf("export %d", n)})
		}
		for _, it := range x.begin.Items {
			count[it.UID]++
			exp, ok := r.Expect[it.UID]
			if !ok {
				out = append(out, Finding{"C05", "item invented: exported item was never submitted", fmt.Sprintf("export %d uid %q", n, it.UID)})
				continue
			}
			obs["items_exported"]++
			if it.Full != exp.full {
				path := firstDiffPath(exp.full, it.Full)
				out = append(out, Finding{"C05", "exported item differs from what was submitted at " + path,
					fmt.Sprintf("uid %s export %d\nsubmitted: %s\nexported:  %s", it.UID, n, exp.full, it.Full)})
			} else {
				obs["items_content_and_container_identical"]++
			}
		}
	}
	for u, c := range count {
		if c > 1 {
			out = append(out, Finding{"C05", "item duplicated: exported more than once", fmt.Sprintf("uid %s exported %d times (exports %v)", u, c, ix.uidExps[u])})
		}
	}
	for id, q := range ix.reqs {
		if q.stuck || q.ret == nil {
			continue
		}
		accepted := q.ret.Err == nil
		if !accepted {
			continue
		}
		obs["requests_accepted"]++
		for _, u := range r.Built[id].UIDs {
			if count[u] == 0 {
				out = append(out, Finding{"C05", "item lost: accepted item never exported", fmt.Sprintf("request %s returned nil but uid %s was never passed to the next consumer (shutdown mode %d)", id, u, r.Sc.Shutdown)})
				break
			}
		}
	}
	return
}

// ---------------------------------------------------------------- C06

func CheckOutcome(ix *Index) (out []Finding, obs map[string]int64) {
	r := ix.r
	obs = map[string]int64{}
	add := func(sig, d string) { out = append(out, Finding{"C06", sig, d}) }
	for id, q := range ix.reqs {
		if q.call == nil {
			continue
		}
		if q.stuck || q.ret == nil {
			add("Consume call never returned", fmt.Sprintf("request %s (%d items) had not returned one hour of virtual time after the last scripted activity", id, q.spec.items))
			continue
		}
		exps := ix.reqExports(id)
		if isRefused(q.ret) {
			continue // C10's business
		}
		if r.Sc.Cfg.EarlyReturn {
			// the caller's own context ended strictly before the request could be queued (blocked on a
			// full shard channel): the call must return promptly with the context error
			endedAt, endedFirst := time.Duration(0), false
			if q.cancel != nil && q.cancel.Seq < q.ret.Seq {
				endedAt, endedFirst = durMax(q.cancel.VT, q.call.VT), true
			} else if q.hasDeadline() && q.ret.VT-q.call.VT >= q.spec.Deadline {
				endedAt, endedFirst = q.call.VT+q.spec.Deadline, true
			}
			if endedFirst && q.spec.items > 0 && (q.enq == nil || q.enq.VT > endedAt) {
				obs["requests_cancelled_before_being_queued"]++
				if q.ret.VT > endedAt {
					add("cancelled call did not return promptly", fmt.Sprintf("%s (early_return, not yet queued): context ended at %v, call returned at %v", id, endedAt, q.ret.VT))
				} else if !errors.Is(q.ret.Err, context.Canceled) && !errors.Is(q.ret.Err, context.DeadlineExceeded) {
					add("cancelled call returned an error that is not the context error", fmt.Sprintf("%s (early_return, not yet queued): %v", id, q.ret.Err))
				}
				continue
			}
			if q.enq != nil {
				obs["early_return_calls"]++
				if q.ret.Err != nil {
					add("early_return: queued call returned an error", fmt.Sprintf("%s: %v", id, q.ret.Err))
				}
				if q.ret.VT != q.enq.VT {
					add("early_return: call did not return as soon as the request was queued", fmt.Sprintf("%s queued at %v returned at %v", id, q.enq.VT, q.ret.VT))
				}
			} else if q.ret.Err == nil && q.spec.items > 0 {
				add("early_return: nil returned although the request was never queued", id)
			}
			continue
		}
		if q.spec.items == 0 {
			if q.ret.Err != nil && !ix.groupCancelled(q) {
				add("empty request returned an error", fmt.Sprintf("%s: %v", id, q.ret.Err))
			}
			continue
		}
		ended := ix.groupCancelled(q)
		if q.ret.Err == nil || !ended {
			// the normal contract
			covered := true
			for _, u := range r.Built[id].UIDs {
				if len(ix.uidExps[u]) == 0 {
					covered = false
				}
			}
			var failing []int
			for _, n := range exps {
				x := ix.exports[n]
				if x.end == nil || x.end.Seq > q.ret.Seq {
					if !ended || q.ret.Err == nil {
						add("Consume returned before an export carrying its items had returned", fmt.Sprintf("%s returned (seq %d, err=%v) before export %d ended", id, q.ret.Seq, q.ret.Err, n))
					}
					continue
				}
				if x.end.Err != nil {
					failing = append(failing, n)
				}
			}
			if !covered && q.ret.Err == nil {
				add("Consume returned nil before every item of its request had been exported", fmt.Sprintf("%s: exports %v do not cover its %d items", id, exps, q.spec.items))
			}
			if q.ret.Err == nil && len(failing) > 0 {
				add("Consume returned nil although an export carrying its items failed", fmt.Sprintf("%s: failing exports %v", id, failing))
			}
			if q.ret.Err != nil && len(failing) == 0 && !ended {
				add("Consume returned an error although every export carrying its items succeeded", fmt.Sprintf("%s: err=%v exports=%v", id, q.ret.Err, exps))
			}
			if q.ret.Err != nil {
				for _, n := range failing {
					if fe := ix.exports[n].end.Err; !errors.Is(q.ret.Err, fe) {
						add("error returned to the caller does not wrap the failure of an export that carried its items", fmt.Sprintf("%s: err=%v does not wrap export %d error %v", id, q.ret.Err, n, fe))
					}
				}
			}
			if len(exps) >= 2 {
				obs["requests_spread_over_2+_batches"]++
			}
			if len(failing) > 0 {
				obs["requests_with_failing_export"]++
			}
			obs["requests_judged_normal_contract"]++
		}
		if ended && q.ret.Err != nil {
			obs["requests_cancelled_before_completion"]++
			// promptly: zero virtual time after the context ended
			var endVT = q.ret.VT
			if q.cancel != nil && q.cancel.Seq < q.ret.Seq {
				endVT = q.cancel.VT
			} else if q.hasDeadline() {
				endVT = q.call.VT + q.spec.Deadline
			}
			if q.cancel == nil && q.spec.CtxGroup >= 0 {
				endVT = q.ret.VT // cancelled through a sibling request sharing the context
			}
			endVT = durMax(endVT, q.call.VT) // a context that ended before the call was made: judged from the call
			if q.ret.VT > endVT {
				add("cancelled call did not return promptly", fmt.Sprintf("%s: context ended at %v, call returned at %v", id, endVT, q.ret.VT))
			}
			if !errors.Is(q.ret.Err, context.Canceled) && !errors.Is(q.ret.Err, context.DeadlineExceeded) {
				// it may legitimately have completed with an export failure at the same instant
				failed := false
				for _, n := range exps {
					if x := ix.exports[n]; x.end != nil && x.end.Err != nil && x.end.Seq < q.ret.Seq {
						failed = true
					}
				}
				if !failed {
					add("cancelled call returned an error that is not the context error", fmt.Sprintf("%s: %v", id, q.ret.Err))
				}
			}
		}
		for _, u := range r.Built[id].UIDs {
			if len(ix.uidExps[u]) > 1 {
				add("items of a request delivered more than once", fmt.Sprintf("%s uid %s exports %v", id, u, ix.uidExps[u]))
				break
			}
		}
	}
	for _, n := range ix.expOrder {
		if len(ix.exportReqs(n)) >= 2 {
			obs["batches_serving_2+_requests"]++
		}
	}
	return
}

func (ix *Index) exportReqs(n int) []string {
	set := map[string]bool{}
	for _, it := range ix.exports[n].begin.Items {
		if e, ok := ix.r.Expect[it.UID]; ok {
			set[e.req] = true
		}
	}
	out := make([]string, 0, len(set))
	for k := range set {
		out = append(out, k)
	}
	sort.Strings(out)
	return out
}

// ---------------------------------------------------------------- C09

// CheckLimits: sizes always; deadlines and the quiescence invariant when `timing` is set
// (scenario has unlimited concurrency, no cancellations, hook delays only before enqueue).
func CheckLimits(ix *Index, timing bool) (out []Finding, obs map[string]int64) {
	r := ix.r
	cfg := r.Sc.Cfg
	obs = map[string]int64{}
	add := func(sig, d string) { out = append(out, Finding{"C09", sig, d}) }
	for _, n := range ix.expOrder {
		b := ix.exports[n].begin
		obs["batches"]++
		if b.Size < 1 {
			add("empty outgoing batch", fmt.Sprintf("export %d at %v", n, b.VT))
		}
		if cfg.SendBatchMaxSize > 0 && b.Size > int(cfg.SendBatchMaxSize) {
			add("outgoing batch larger than send_batch_max_size", fmt.Sprintf("export %d holds %d items > %d", n, b.Size, cfg.SendBatchMaxSize))
		}
		if cfg.SendBatchMaxSize > 0 && b.Size == int(cfg.SendBatchMaxSize) {
			obs["batches_exactly_max_size"]++
		}
	}
	if !timing {
		return
	}
	// the property's proviso: "provided the concurrency limit is not holding exports back". With
	// max_concurrency = k > 0 the limit holds exports back at instant t when k exports are in flight at t,
	// counted over ALL shards (the implementation has one limiter per processor, which also satisfies C11's
	// per-combination bound; counting globally is the weaker, hence sound, reading of the proviso). Closed
	// intervals [begin, end] on the virtual clock; an export that never ended stays in flight. An item is
	// exempt when that happens at ANY instant of its window.
	k := int(cfg.MaxConcurrency)
	type span struct{ from, to time.Duration }
	const never = time.Duration(1<<62 - 1)
	flights := map[string][]span{}
	if k > 0 {
		for _, n := range ix.expOrder {
			x := ix.exports[n]
			cb := "" // one limiter for all shards
			sp := span{x.begin.VT, never}
			if x.end != nil {
				sp.to = x.end.VT
			}
			flights[cb] = append(flights[cb], sp)
		}
	}
	heldBack := func(cb string, from, to time.Duration) bool {
		if k == 0 {
			return false
		}
		at := func(t time.Duration) int {
			n := 0
			for _, f := range flights[cb] {
				if f.from <= t && t <= f.to {
					n++
				}
			}
			return n
		}
		if at(from) >= k {
			return true
		}
		for _, f := range flights[cb] {
			if f.from >= from && f.from <= to && at(f.from) >= k {
				return true
			}
		}
		return false
	}
	// the scenario's clean part ends when Shutdown is called or when the harness had to release callers
	end := never
	if ix.shutCall != nil {
		end = ix.shutCall.VT
	}
	for i := range r.log {
		if r.log[i].Kind == "stuck" && r.log[i].VT < end {
			end = r.log[i].VT
		}
	}
	// deadline per item. The proviso is consulted only for an item that missed its deadline: its own export
	// then lies outside the window, which holds other items' exports only.
	for id, q := range ix.reqs {
		if q.enq == nil {
			continue
		}
		deadline := q.enq.VT
		if cfg.HasTimer() {
			deadline += cfg.Timeout
		}
		exempt := func() bool {
			if heldBack("", q.enq.VT, deadline) {
				obs["items_exempt_concurrency_limit_was_holding_exports_back"]++
				return true
			}
			return false
		}
		for _, u := range r.Built[id].UIDs {
			xs := ix.uidExps[u]
			if len(xs) == 0 {
				// never exported at all is C05's business; not exported by the deadline although the scenario
				// went on beyond it (no Shutdown, no release before) is this property's
				if k > 0 && deadline < end && !exempt() {
					add("buffered item not exported by its deadline although the concurrency limit was not holding exports back",
						fmt.Sprintf("uid %s accepted at %v, deadline %v, never exported before %v; max_concurrency %d, exports in flight during the window: fewer than %d at every instant", u, q.enq.VT, deadline, end, k, k))
					break
				}
				continue
			}
			bt := ix.exports[xs[0]].begin.VT
			obs["items_deadline_checked"]++
			if k > 0 {
				obs["items_deadline_checked_under_a_concurrency_limit"]++
			}
			if bt > deadline && exempt() {
				continue
			}
			if cfg.HasTimer() {
				if bt > deadline {
					add("buffered item exported later than timeout after it was accepted", fmt.Sprintf("uid %s accepted at %v exported at %v (timeout %v, send_batch_size %d, max_concurrency %d)", u, q.enq.VT, bt, cfg.Timeout, cfg.SendBatchSize, k))
					break
				}
				if bt > q.enq.VT {
					obs["items_that_waited_for_the_timer"]++
				}
			} else if bt != q.enq.VT {
				add("item not exported immediately although timeout or send_batch_size is zero", fmt.Sprintf("uid %s accepted at %v exported at %v (max_concurrency %d)", u, q.enq.VT, bt, k))
				break
			}
		}
	}
	if k > 0 {
		return // the quiescence invariant below is evaluated with unlimited concurrency only
	}
	// quiescence invariant: the last event at each distinct virtual instant is a quiescent state
	type cnt struct{ in, out int }
	per := map[string]*cnt{}
	get := func(k string) *cnt {
		if per[k] == nil {
			per[k] = &cnt{}
		}
		return per[k]
	}
	log := r.log
	for i := range log {
		e := &log[i]
		if ix.shutCall != nil && e.Seq >= ix.shutCall.Seq {
			break
		}
		if e.Kind == "stuck" {
			break // the harness released blocked callers by cancelling them: no longer a clean state
		}
		switch e.Kind {
		case "enq":
			q := ix.reqs[e.Req]
			get(combo(cfg.MetadataKeys, q.spec.Meta)).in += len(r.Built[e.Req].UIDs)
		case "export_begin":
			for _, it := range e.Items {
				if ex, ok := r.Expect[it.UID]; ok {
					get(combo(cfg.MetadataKeys, ix.reqs[ex.req].spec.Meta)).out++
				}
			}
		}
		last := i+1 >= len(log) || log[i+1].VT != e.VT
		if !last {
			continue
		}
		obs["quiescent_states_checked"]++
		for k, c := range per {
			buffered := c.in - c.out
			if cfg.HasTimer() {
				if buffered >= int(cfg.SendBatchSize) {
					add("buffer reached send_batch_size at a quiescent point without being exported", fmt.Sprintf("at %v shard %q holds %d items >= send_batch_size %d", e.VT, k, buffered, cfg.SendBatchSize))
					return
				}
				if buffered > 0 {
					obs["quiescent_states_with_buffered_items"]++
				}
			} else if buffered != 0 {
				add("items buffered at a quiescent point although there is no flush timer", fmt.Sprintf("at %v shard %q holds %d items", e.VT, k, buffered))
				return
			}
		}
	}
	return
}

// ---------------------------------------------------------------- C10 (isolation part; admission is checked with porcupine)

func CheckTenants(ix *Index) (out []Finding, obs map[string]int64) {
	r := ix.r
	cfg := r.Sc.Cfg
	obs = map[string]int64{}
	add := func(sig, d string) { out = append(out, Finding{"C10", sig, d}) }
	if len(cfg.MetadataKeys) == 0 {
		return
	}
	admitted := map[string]bool{}
	for id, q := range ix.reqs {
		if q.ret == nil {
			continue
		}
		cb := combo(cfg.MetadataKeys, q.spec.Meta)
		if isRefused(q.ret) {
			obs["refused_calls"]++
			if !q.ret.ErrPermanent {
				add("refusal for too many combinations is not a permanent error", fmt.Sprintf("%s: %v", id, q.ret.Err))
			}
			for _, u := range r.Built[id].UIDs {
				if len(ix.uidExps[u]) > 0 {
					add("items of a refused request were exported", fmt.Sprintf("%s uid %s", id, u))
					break
				}
			}
		} else {
			admitted[cb] = true
		}
	}
	if cfg.CardLimit > 0 && len(admitted) > int(cfg.CardLimit) {
		add("more distinct combinations admitted than metadata_cardinality_limit", fmt.Sprintf("%d admitted > limit %d", len(admitted), cfg.CardLimit))
	}
	obs["combinations_admitted_max"] = int64(len(admitted))
	for _, n := range ix.expOrder {
		b := ix.exports[n].begin
		combos := map[string]bool{}
		for _, it := range b.Items {
			if ex, ok := r.Expect[it.UID]; ok {
				combos[combo(cfg.MetadataKeys, ix.reqs[ex.req].spec.Meta)] = true
			}
		}
		obs["batches_checked"]++
		if len(combos) > 1 {
			ks := []string{}
			for k := range combos {
				ks = append(ks, k)
			}
			sort.Strings(ks)
			add("outgoing batch mixes items of different metadata combinations", fmt.Sprintf("export %d: %v", n, ks))
			continue
		}
		for k := range combos {
			if seen := combo(cfg.MetadataKeys, b.MetaSeen); seen != k {
				add("client metadata visible to the export call disagrees with the batch's combination", fmt.Sprintf("export %d: items %s, context %s", n, k, seen))
			}
		}
	}
	return
}

// ---------------------------------------------------------------- C11

func CheckConcurrency(ix *Index) (out []Finding, obs map[string]int64) {
	r := ix.r
	cfg := r.Sc.Cfg
	obs = map[string]int64{}
	add := func(sig, d string) { out = append(out, Finding{"C11", sig, d}) }
	for _, n := range ix.expOrder {
		x := ix.exports[n]
		if int64(x.begin.InFlight) > obs["max_in_flight_per_combination"] {
			obs["max_in_flight_per_combination"] = int64(x.begin.InFlight)
		}
		if int64(x.begin.InFlightG) > obs["max_in_flight_global"] {
			obs["max_in_flight_global"] = int64(x.begin.InFlightG)
		}
		if cfg.MaxConcurrency > 0 && x.begin.InFlight > int(cfg.MaxConcurrency) {
			add("more export calls in flight for one combination than max_concurrency", fmt.Sprintf("export %d: %d in flight > %d", n, x.begin.InFlight, cfg.MaxConcurrency))
		}
		if cfg.MaxConcurrency > 0 && x.begin.InFlight == int(cfg.MaxConcurrency) {
			obs["exports_at_the_concurrency_bound"]++
		}
		if ix.shutRet != nil {
			if x.end == nil || x.end.Seq > ix.shutRet.Seq {
				add("Shutdown returned while an export call was still in flight", fmt.Sprintf("export %d", n))
			}
		}
	}
	if ix.shutRet == nil {
		add("Shutdown never returned", "")
		return
	}
	if ix.shutCall != nil {
		for id, q := range ix.reqs {
			if q.enq == nil || q.enq.Seq > ix.shutCall.Seq {
				continue
			}
			obs["requests_accepted_before_shutdown"]++
			for _, u := range r.Built[id].UIDs {
				xs := ix.uidExps[u]
				if len(xs) == 0 {
					add("item accepted before Shutdown was called was not exported by the time it returned", fmt.Sprintf("%s uid %s", id, u))
					break
				}
			}
		}
		// anything exported between shutdown_call and shutdown_ret was drained by Shutdown
		for _, n := range ix.expOrder {
			if b := ix.exports[n].begin; b.Seq > ix.shutCall.Seq && b.Seq < ix.shutRet.Seq {
				obs["exports_during_shutdown"]++
			}
		}
	}
	return
}

// ---------------------------------------------------------------- C18

func ctxIdentity(spec *ReqSpec) string {
	if spec.CtxGroup >= 0 {
		return fmt.Sprintf("c%d/g%d", spec.Caller, spec.CtxGroup)
	}
	return spec.ID()
}

func CheckContexts(ix *Index) (out []Finding, obs map[string]int64) {
	r := ix.r
	obs = map[string]int64{}
	add := func(sig, d string) { out = append(out, Finding{"C18", sig, d}) }
	ended := map[string]sdktrace.ReadOnlySpan{}
	if r.Spans != nil {
		for _, s := range r.Spans.Ended() {
			ended[s.SpanContext().SpanID().String()] = s
		}
	}
	spanEnding := map[string]int{} // request id -> sequence number of its span_ending event
	for _, e := range r.log {
		if e.Kind == "span_ending" {
			spanEnding[e.Req] = e.Seq
		}
	}
	// first request id per context identity (that is the value stored in the shared context)
	ctxOwner := map[string]string{}
	for _, spec := range r.Sc.Reqs {
		k := ctxIdentity(spec)
		if _, ok := ctxOwner[k]; !ok {
			ctxOwner[k] = spec.ID()
		}
	}
	for _, n := range ix.expOrder {
		x := ix.exports[n]
		ctxs := map[string]bool{}
		for _, id := range ix.exportReqs(n) {
			ctxs[ctxIdentity(ix.reqs[id].spec)] = true
		}
		ids := make([]string, 0, len(ctxs))
		for k := range ctxs {
			ids = append(ids, k)
		}
		sort.Strings(ids)
		pos := "multi"
		if len(ids) == 1 {
			pos = "single"
		}
		obs["exports_"+pos+"_context"]++
		if len(ids) >= 2 {
			obs[fmt.Sprintf("multi_context_exports_with_%d_contributors", min(len(ids), 6))]++
			if x.begin.CtxReq != "" {
				add("batch with items of several request contexts exported under one caller's context", fmt.Sprintf("export %d: contributors %v, exported under the context of %s", n, ids, x.begin.CtxReq))
			}
			if x.begin.CtxErr != nil || (x.end != nil && (x.end.DoneFired || x.end.CtxErr != nil)) {
				add("export of a multi-context batch was cancelled through a caller's context", fmt.Sprintf("export %d: contributors %v ctx.Err at begin=%v end=%v", n, ids, x.begin.CtxErr, x.end.CtxErr))
			}
			if r.Sc.Tracing {
				es := ended[x.begin.SpanCtx.SpanID().String()]
				if es == nil {
					add("export span of a multi-context batch not found among ended spans", fmt.Sprintf("export %d", n))
					continue
				}
				if es.Parent().IsValid() {
					add("export span of a multi-context batch has a caller span as parent", fmt.Sprintf("export %d parent %s", n, es.Parent().SpanID()))
				}
				links := map[string]bool{}
				for _, l := range es.Links() {
					links[l.SpanContext.SpanID().String()] = true
				}
				for _, k := range ids {
					owner := ctxOwner[k]
					csc, ok := r.reqSpans[owner]
					if !ok {
						continue
					}
					if !links[csc.SpanID().String()] {
						add("export span lacks a link to a contributing request's span", fmt.Sprintf("export %d: contributor %s (span %s) not among %d links", n, k, csc.SpanID(), len(links)))
					}
					if se, ok := spanEnding[owner]; ok && se < x.begin.Seq {
						// the caller ended its span before this export began: AddLink on an ended span is a
						// no-op of the SDK, so a link back cannot be demanded (the forward link above still is)
						obs["link_backs_not_demanded_span_ended_before_export"]++
						continue
					}
					cs := ended[csc.SpanID().String()]
					back := false
					if cs != nil {
						for _, l := range cs.Links() {
							if l.SpanContext.SpanID() == es.SpanContext().SpanID() {
								back = true
							}
						}
					}
					if !back {
						add("contributing request's span did not receive a link back to the export span", fmt.Sprintf("export %d: contributor %s", n, k))
					} else {
						obs["link_backs_verified"]++
					}
				}
			}
		} else if len(ids) == 1 {
			owner := ctxOwner[ids[0]]
			if x.begin.CtxReq != owner {
				// exported under the processor's own context instead: permitted by the statement? No:
				// "a batch fed by a single request context is exported as a child of that request"
				if r.Sc.Tracing {
					add("single-context batch not exported under that request's context", fmt.Sprintf("export %d: contributor %s, context value %q", n, ids[0], x.begin.CtxReq))
				}
			}
			if r.Sc.Tracing {
				es := ended[x.begin.SpanCtx.SpanID().String()]
				csc := r.reqSpans[owner]
				if es == nil {
					add("export span of a single-context batch not found among ended spans", fmt.Sprintf("export %d", n))
				} else if es.Parent().SpanID() != csc.SpanID() {
					add("single-context batch not exported as a child of that request's span", fmt.Sprintf("export %d: parent %s, request span %s", n, es.Parent().SpanID(), csc.SpanID()))
				} else {
					obs["single_context_child_spans_verified"]++
				}
			}
		}
	}
	// a caller whose own context did not end must not see another caller's cancellation
	for id, q := range ix.reqs {
		if q.ret == nil || q.ret.Err == nil || ix.groupCancelled(q) || q.stuck {
			continue
		}
		if errors.Is(q.ret.Err, context.Canceled) || errors.Is(q.ret.Err, context.DeadlineExceeded) {
			add("caller whose own context did not end received a context error caused by another caller", fmt.Sprintf("%s: %v (exports %v)", id, q.ret.Err, ix.reqExports(id)))
		}
	}
	return
}

func durMax(a, b time.Duration) time.Duration {
	if a > b {
		return a
	}
	return b
}
