package bp

import (
	"fmt"
	"strings"
	"testing"
	"testing/synctest"
	"time"

	"verif/common/vc"
)

// execBubble runs one scenario inside a synctest bubble (virtual clock, logical deadlock and
// goroutine-leak detection) and returns the run with its event log.
func execBubble(t *testing.T, c *vc.Case, sc *Scenario) (run *Run, stuck []string, err error) {
	run = NewRun(sc, c.R.Uint64())
	synctest.Test(t, func(t *testing.T) {
		stuck, err = run.Exec()
	})
	return
}

func execStress(c *vc.Case, sc *Scenario) (run *Run, err error) {
	if sc.Cfg.Timeout > 3*time.Millisecond {
		sc.Cfg.Timeout = 3 * time.Millisecond // real time: keep timer flushes short
	}
	run = NewRun(sc, c.R.Uint64())
	run.Stress = true
	var stuck []string
	stuck, err = run.Exec()
	if len(stuck) > 0 {
		c.Inconclusive(fmt.Sprintf("stress run: %d caller(s) still blocked after the 30 s wall-clock watchdog (released): %v", len(stuck), stuck))
	}
	return
}

// judge applies every offline checker; findings of `prop` become violations, findings of other
// properties are only counted (they are decided by their own check).
func judge(c *vc.Case, prop string, run *Run, ix *Index, timing bool) {
	type chk func() ([]Finding, map[string]int64)
	checks := map[string]chk{
		"C05": func() ([]Finding, map[string]int64) { return CheckDelivery(ix) },
		"C06": func() ([]Finding, map[string]int64) { return CheckOutcome(ix) },
		"C09": func() ([]Finding, map[string]int64) { return CheckLimits(ix, timing) },
		"C10": func() ([]Finding, map[string]int64) { return CheckTenants(ix) },
		"C11": func() ([]Finding, map[string]int64) { return CheckConcurrency(ix) },
		"C18": func() ([]Finding, map[string]int64) { return CheckContexts(ix) },
	}
	for p, f := range checks {
		fs, obs := f()
		if p == prop {
			for k, v := range obs {
				if strings.HasPrefix(k, "max_") || strings.HasSuffix(k, "_max") {
					c.Max(k, v)
				} else {
					c.Count(k, v)
				}
			}
		}
		for _, fd := range fs {
			if p == prop {
				c.Violation(fd.Sig, fd.Detail, witnessOf(run, fd))
			} else {
				// oracles of the other properties run on every log, but they are only SOUND under their own
				// property's scenario profile (e.g. C06's promptness clauses assume that no hook delays the
				// caller's own goroutine); outside it their hits are listed for information, never judged
				c.Count("hits_of_other_oracles_outside_their_profile_not_judged_"+p, 1)
				c.Seen("other_oracle_hits_not_judged", p+": "+fd.Sig)
			}
		}
	}
}

func witnessOf(run *Run, fd Finding) map[string]any {
	w := run.Sc.Describe()
	w["finding"] = fd.Sig
	w["detail"] = fd.Detail
	var lines []string
	for _, e := range run.log {
		if e.Kind == "hook" {
			continue
		}
		s := fmt.Sprintf("#%d t=%v %s", e.Seq, e.VT, e.Kind)
		if e.Req != "" {
			s += " " + e.Req
		}
		switch e.Kind {
		case "export_begin":
			uids := make([]string, 0, len(e.Items))
			for _, it := range e.Items {
				uids = append(uids, it.UID)
			}
			s += fmt.Sprintf(" export=%d size=%d ctxreq=%q ctxerr=%v inflight=%d uids=%v", e.Export, e.Size, e.CtxReq, e.CtxErr, e.InFlight, uids)
		case "export_end":
			s += fmt.Sprintf(" export=%d err=%v done=%v", e.Export, e.Err, e.DoneFired)
		case "ret", "shutdown_ret":
			s += fmt.Sprintf(" err=%v", e.Err)
		}
		lines = append(lines, s)
		if len(lines) > 400 {
			lines = append(lines, "…")
			break
		}
	}
	w["event_log"] = lines
	return w
}

// observeCommon records scenario-shape observations shared by all bp checks.
func observeCommon(c *vc.Case, run *Run, ix *Index) {
	sc := run.Sc
	c.Count("scenarios", 1)
	c.Count("requests", int64(len(sc.Reqs)))
	c.Count("exports", int64(len(ix.expOrder)))
	hooks := 0
	var sig []string
	for _, e := range run.log {
		if e.Kind == "hook" {
			hooks++
			sig = append(sig, e.Point[:1]+e.Point[strings.Index(e.Point, ".")+1:][:2])
		}
	}
	c.Count("hook_points_hit", int64(hooks))
	c.Seen("interleaving_signatures", vc.Hash8(strings.Join(sig, "")))
	c.Seen("configs", sc.Cfg.String())
}

func scenarioFP(sc *Scenario, ix *Index) string {
	return fmt.Sprintf("%s|%s|r=%d|x=%d|sd=%d|hd=%d|f=%v", sc.Sig, sc.Cfg, len(sc.Reqs), len(ix.expOrder), sc.Shutdown, len(sc.HookDelays), sc.Fail)
}

var bpAssumptions = []string{
	"events are recorded at the component boundary (Consume* calls/returns, next-consumer calls, Shutdown) under one mutex; the log order is the order observed by the monitor",
	"bubble mode: testing/synctest virtual time = the component's own clock; schedule exploration is virtual-time perturbation at hook points, not systematic enumeration",
	"every item carries a unique id attribute; expectations are computed before any goroutine starts",
}

// ---------------------------------------------------------------- C05

func TestC05(t *testing.T) {
	r := vc.NewRunner(t, "C05")
	defer r.Close()
	r.Meta(vc.Meta{
		Level:       "exploration",
		Rule:        "case = one scenario (signal, config over send_batch_size{0,1,2,3,7,100} x max{0,size,size+1,2size-1} x timeout{0,1ms,1s} x metadata keys x max_concurrency{0,1,2,4} x early_return; 1-6 concurrent callers with 1-3 requests of several resources/scopes/metrics incl. empty containers and all metric kinds, non-empty schema URLs everywhere; export latency/failure script; PRNG virtual-time delays at hook points; Shutdown either after all callers returned or while items are still buffered) run against the real processor. Offline oracle over the boundary log: every uid of an accepted request is passed to the next consumer exactly once, no uid twice, none invented, and the JSON of (resource+schemaUrl, scope+schemaUrl, [metric descriptor,] item) of every exported item equals what was submitted. Layers: bubble (synctest), delay-sweep (a base scenario run without hook delays, then re-run once per (hook hit, duration) with exactly that one hit held back, then with PRNG pairs of hits held back) and stress (real goroutines, GOMAXPROCS 2/16). Non-trivial = scenario in which a batch merged >=2 requests or a request was split over >=2 batches. Distinct = (signal, config, #requests, #exports, shutdown mode, hook table size, failure script).",
		Assumptions: bpAssumptions,
		Gates: map[string]map[string]int{
			"quick":    {"scenarios": 500, "items_exported": 5000, "splits_inside_a_scope": 20, "merges_of_3+_requests": 20, "exports_during_shutdown_flush": 20, "split_metric_kinds": 5, "delay_sweep_single_delays_enumerated": 1000},
			"thorough": {"scenarios": 15000, "items_exported": 150000, "splits_inside_a_scope": 500, "merges_of_3+_requests": 500, "exports_during_shutdown_flush": 500, "split_metric_kinds": 5, "delay_sweep_single_delays_enumerated": 30000},
		},
	})
	e := r.Env
	var subLabel string // set by the delay-sweep layer: its runs are sub-cases of one case
	post := func(c *vc.Case, run *Run, err error, stuck []string) {
		ix := BuildIndex(run)
		if err != nil {
			c.Inconclusive("scenario could not run: " + err.Error())
			return
		}
		observeCommon(c, run, ix)
		judge(c, "C05", run, ix, false)
		// coverage observations: splits and merges
		merged, split := false, false
		scopeOf := func(full string) string { // container prefix of the item JSON up to the item list
			if i := strings.Index(full, `"spans":`); i > 0 {
				return full[:i]
			}
			if i := strings.Index(full, `"logRecords":`); i > 0 {
				return full[:i]
			}
			if i := strings.Index(full, `"dataPoints":`); i > 0 {
				return full[:i]
			}
			return full
		}
		contExports := map[string]map[int]bool{}
		for _, n := range ix.expOrder {
			if len(ix.exportReqs(n)) >= 3 {
				c.Count("merges_of_3+_requests", 1)
			}
			if len(ix.exportReqs(n)) >= 2 {
				merged = true
			}
			b := ix.exports[n].begin
			if ix.shutCall != nil && b.Seq > ix.shutCall.Seq {
				c.Count("exports_during_shutdown_flush", 1)
			}
			for _, it := range b.Items {
				k := scopeOf(it.Full)
				if contExports[k] == nil {
					contExports[k] = map[int]bool{}
				}
				contExports[k][n] = true
			}
		}
		for k, xs := range contExports {
			if len(xs) >= 2 {
				split = true
				c.Count("splits_inside_a_scope", 1)
				for _, kind := range []string{`"gauge"`, `"sum"`, `"histogram"`, `"exponentialHistogram"`, `"summary"`} {
					if strings.Contains(k, kind+":") {
						c.Seen("split_metric_kinds", kind)
					}
				}
			}
		}
		if subLabel != "" {
			c.SubNT(subLabel+"|"+scenarioFP(run.Sc, ix), merged || split)
			return
		}
		c.FP(scenarioFP(run.Sc, ix))
		c.Nontrivial(merged || split)
	}
	// systematic single-delay enumeration over a base with splits (see sweep_test.go)
	r.Layer("delay-sweep", e.Pick(16, 240), func(c *vc.Case) {
		sc := GenScenario(c.R, Profile{Sig: -1, Keys: c.R.IntN(4) == 0, Cancels: c.R.IntN(3) == 0, Fails: true, HookMode: "none", EarlyReturn: -1, MaxCallers: 4})
		if sc.Cfg.SendBatchMaxSize == 0 && c.R.IntN(3) != 0 {
			sc.Cfg.SendBatchMaxSize = sc.Cfg.SendBatchSize + uint32(c.R.IntN(2))
			if sc.Cfg.SendBatchMaxSize == 0 {
				sc.Cfg.SendBatchMaxSize = 2
			}
		}
		sc.Label = "delay-sweep"
		defer func() { subLabel = "" }()
		delaySweep(t, c, sc, c.R.Uint64(), true, e.Pick(120, 400), e.Pick(30, 200), func(run *Run, err error, label string) {
			subLabel = label
			post(c, run, err, nil)
		})
	})
	r.Layer("bubble", e.Pick(600, 20000), func(c *vc.Case) {
		sc := GenScenario(c.R, Profile{Sig: -1, Keys: true, Cancels: c.R.IntN(4) == 0, Fails: true, HookMode: "all", EarlyReturn: -1, SharedCtx: true})
		sc.Label = "bubble"
		run, stuck, err := execBubble(t, c, sc)
		post(c, run, err, stuck)
		if c.Idx < 40 {
			c.Sample(sc.Describe())
		}
	})
	r.Layer("stress", e.Pick(40, 600), func(c *vc.Case) {
		sc := GenScenario(c.R, Profile{Sig: -1, Keys: true, Fails: true, HookMode: "all", EarlyReturn: -1, MaxCallers: 8})
		sc.Label = "stress"
		// many small requests from 8 goroutines
		for len(sc.Reqs) < 60 {
			base := sc.Reqs[c.R.IntN(len(sc.Reqs))]
			n := 0
			for _, q := range sc.Reqs {
				if q.Caller == base.Caller && q.Req >= n {
					n = q.Req + 1
				}
			}
			cp := *base
			cp.Req = n
			cp.Res = genShape(c.R, sc.Sig, 1+c.R.IntN(6))
			sc.Reqs = append(sc.Reqs, &cp)
		}
		sc.Shutdown = c.Idx % 2 // half of the stress runs shut down as soon as every call is enqueued
		run, err := execStress(c, sc)
		post(c, run, err, nil)
	})
}

// runBubble runs f inside a synctest bubble on the runner's *testing.T.
func runBubble(t *testing.T, f func()) {
	synctest.Test(t, func(t *testing.T) { f() })
}
