package bp

import (
	"fmt"
	"math/rand/v2"
	"time"
)

// Profile steers the scenario generator towards what one property needs.
type Profile struct {
	Sig           int // -1 random
	Keys          bool
	Cancels       bool
	Fails         bool
	Tracing       bool
	HookMode      string // "all" | "pre-enqueue" | "none"
	UnlimitedConc bool   // force max_concurrency = 0
	MaxCallers    int
	EarlyReturn   int // -1 random, 0 false, 1 true
	SharedCtx     bool
	CtxHooks      bool // delays inside ctx.Err() of the callers' contexts
}

var (
	sizes    = []uint32{0, 1, 2, 3, 7, 100}
	timeouts = []time.Duration{0, time.Millisecond, time.Second}
)

func pickD(r *rand.Rand, ds ...time.Duration) time.Duration { return ds[r.IntN(len(ds))] }

func genShape(r *rand.Rand, sig Signal, items int) []ResSpec {
	if items == 0 {
		switch r.IntN(3) {
		case 0:
			return nil
		case 1:
			return []ResSpec{{}}
		default:
			return []ResSpec{{Scopes: []ScopeSpec{{}}}}
		}
	}
	nr := 1 + r.IntN(3)
	res := make([]ResSpec, nr)
	for i := range res {
		ns := 1 + r.IntN(2)
		res[i].Scopes = make([]ScopeSpec, ns)
	}
	if sig != Metrics {
		for k := 0; k < items; k++ {
			rs := &res[r.IntN(nr)]
			rs.Scopes[r.IntN(len(rs.Scopes))].Items++
		}
		return res
	}
	// metrics: distribute points over metrics of all kinds
	left := items
	for left > 0 {
		rs := &res[r.IntN(nr)]
		sc := &rs.Scopes[r.IntN(len(rs.Scopes))]
		p := 1 + r.IntN(min(left, 4))
		sc.Metrics = append(sc.Metrics, MetricSpec{Kind: 1 + r.IntN(5), Points: p})
		left -= p
	}
	// sprinkle empty metrics / zero-point metrics (empty containers)
	if r.IntN(3) == 0 {
		rs := &res[r.IntN(nr)]
		sc := &rs.Scopes[r.IntN(len(rs.Scopes))]
		sc.Metrics = append(sc.Metrics, MetricSpec{Kind: r.IntN(6), Points: 0})
	}
	return res
}

// values that differ only in how a list is cut (["a","b"] vs ["a,b"] vs ["a;b"]) are distinct combinations
var tenantValues = [][]string{{"a"}, {"b"}, {"c"}, {"a", "b"}, {"a", "c"}, {"b", "a"}, {"a", "b", "c"}, {""}, {"", "a"}, nil, {}, {"A"}, {"d"}, {"e"},
	{"a,b"}, {"a;b"}, {"a", ""}, {"a,b", "c"}, {"a", "b,c"}, {"a\x00b"}, {"a=b"}, {"[a b]"}}

// GenScenario draws one scenario.
func GenScenario(r *rand.Rand, p Profile) *Scenario {
	sc := &Scenario{Sig: Signal(r.IntN(3)), HookSeed: r.Uint64(), Tracing: p.Tracing}
	sc.EndSpans = p.Tracing && sc.HookSeed%2 == 0 // half of the traced scenarios: callers end their span on return
	sc.CancelOnReturn = (sc.HookSeed>>8)%3 == 1   // a third of all scenarios: callers cancel their own context on return
	if p.Sig >= 0 {
		sc.Sig = Signal(p.Sig)
	}
	// ---- config
	c := Cfg{}
	c.SendBatchSize = sizes[r.IntN(len(sizes))]
	switch r.IntN(4) {
	case 0:
		c.SendBatchMaxSize = 0
	case 1:
		c.SendBatchMaxSize = c.SendBatchSize
	case 2:
		c.SendBatchMaxSize = c.SendBatchSize + 1
	default:
		if c.SendBatchSize > 0 {
			c.SendBatchMaxSize = 2*c.SendBatchSize - 1
		} else {
			c.SendBatchMaxSize = uint32(1 + r.IntN(4))
		}
	}
	c.Timeout = timeouts[r.IntN(len(timeouts))]
	if !p.UnlimitedConc {
		c.MaxConcurrency = []uint32{0, 0, 1, 2, 4}[r.IntN(5)]
	}
	switch p.EarlyReturn {
	case -1:
		c.EarlyReturn = r.IntN(4) == 0
	case 1:
		c.EarlyReturn = true
	}
	if p.Keys && r.IntN(4) != 0 {
		c.MetadataKeys = [][]string{{"tenant"}, {"Tenant"}, {"tenant", "X-Region"}, {"x-region", "TENANT"}}[r.IntN(4)]
		c.CardLimit = []uint32{0, 1, 2, 5}[r.IntN(4)]
	}
	sc.Cfg = c
	// ---- requests
	maxCallers := p.MaxCallers
	if maxCallers == 0 {
		maxCallers = 6
	}
	nCallers := 1 + r.IntN(maxCallers)
	period := c.Timeout
	if period == 0 {
		period = time.Millisecond
	}
	// arrival instants relative to the flush-timer phase
	arrival := func() time.Duration {
		k := time.Duration(r.IntN(4))
		switch r.IntN(7) {
		case 0:
			return 0
		case 1:
			return k*period + period - time.Nanosecond // just before expiry
		case 2:
			return k*period + period // at expiry
		case 3:
			return k*period + period + time.Nanosecond // just after
		case 4:
			return k*period + period/2
		case 5:
			return time.Duration(r.Int64N(int64(4*period) + 1))
		default:
			return 10 * period // after a long silence
		}
	}
	itemsFor := func() int {
		base := int(c.SendBatchSize)
		if base == 0 || base > 10 {
			base = 4
		}
		switch r.IntN(8) {
		case 0:
			return 0
		case 1:
			return 1
		case 2:
			return base
		case 3:
			return base - 1 + r.IntN(3)
		case 4:
			return 2*base + r.IntN(3)
		case 5:
			if c.SendBatchMaxSize > 0 {
				return int(c.SendBatchMaxSize)*2 + r.IntN(3)
			}
			return 3 * base
		default:
			return 1 + r.IntN(3*base)
		}
	}
	burst := r.IntN(3) == 0
	t0 := arrival()
	// callers may be sibling spans of one upstream request (same trace id, distinct contexts)
	sameTrace := p.Tracing && r.IntN(3) == 0
	for cid := 0; cid < nCallers; cid++ {
		nReq := 1 + r.IntN(3)
		at := arrival()
		if burst {
			at = t0
		}
		share := p.SharedCtx && r.IntN(3) == 0
		for q := 0; q < nReq; q++ {
			spec := &ReqSpec{Caller: cid, Req: q, At: at, CtxGroup: -1, CancelAt: -1, Deadline: -1}
			if share {
				spec.CtxGroup = 0
			}
			if sameTrace {
				spec.TraceGroup = 1 + r.IntN(2)
			}
			spec.Res = genShape(r, sc.Sig, itemsFor())
			if len(c.MetadataKeys) > 0 {
				spec.Meta = map[string][]string{}
				if v := tenantValues[r.IntN(len(tenantValues))]; v != nil {
					spec.Meta[[]string{"tenant", "Tenant", "TENANT"}[r.IntN(3)]] = v
				}
				if r.IntN(2) == 0 {
					spec.Meta["x-region"] = [][]string{{"eu"}, {"us"}, {"eu", "us"}}[r.IntN(3)]
				}
				if r.IntN(3) == 0 {
					spec.Meta["unrelated"] = []string{fmt.Sprint(r.IntN(100))}
				}
				if share {
					// one context object carries one metadata
					if q > 0 {
						spec.Meta = sc.Reqs[len(sc.Reqs)-1].Meta
					}
				}
			}
			if p.Cancels && r.IntN(4) == 0 && !share {
				if r.IntN(3) == 0 {
					spec.Deadline = pickD(r, 0, time.Nanosecond, period/2, period, 2*period)
				} else {
					spec.CancelAt = at + pickD(r, -time.Nanosecond, 0, time.Nanosecond, period/2, period, period+time.Nanosecond, 3*period)
					if spec.CancelAt < 0 {
						spec.CancelAt = 0
					}
				}
			}
			sc.Reqs = append(sc.Reqs, spec)
			at += pickD(r, 0, 0, time.Nanosecond, period/2, period, 2*period)
		}
	}
	// ---- sink script
	nl := 1 + r.IntN(4)
	for i := 0; i < nl; i++ {
		sc.Latency = append(sc.Latency, pickD(r, 0, 0, time.Nanosecond, time.Millisecond, period, 3*period, 10*time.Second))
	}
	if p.Fails {
		nf := r.IntN(8)
		for i := 0; i < nf; i++ {
			sc.Fail = append(sc.Fail, r.IntN(3) == 0)
		}
	}
	sc.Shutdown = r.IntN(2)
	// ---- hook delays
	ds := []time.Duration{0, 0, 0, time.Nanosecond, time.Microsecond, time.Millisecond, period / 2, period, period + time.Nanosecond}
	pts := []string{}
	switch p.HookMode {
	case "all":
		pts = []string{"consume.before_enqueue", "consume.enqueued", "loop.received", "loop.drain_item", "send.before_acquire", "export.start", "export.before", "export.after", "export.before_respond", "wait.response", "multi.miss_before_lock"}
	case "not-caller":
		pts = []string{"loop.received", "loop.drain_item", "send.before_acquire", "export.start", "export.before", "export.after", "export.before_respond"}
	case "pre-enqueue":
		pts = []string{"consume.before_enqueue", "multi.miss_before_lock"}
	}
	if p.CtxHooks && r.IntN(2) == 0 {
		sc.CtxHooks = true
		pts = append(pts, "ctx.Err")
	}
	if len(pts) > 0 && r.IntN(4) != 0 {
		sc.HookDelays = map[string][]time.Duration{}
		for _, pt := range pts {
			if r.IntN(2) == 0 {
				n := 1 + r.IntN(4)
				for i := 0; i < n; i++ {
					sc.HookDelays[pt] = append(sc.HookDelays[pt], ds[r.IntN(len(ds))])
				}
			}
		}
	}
	return sc
}

func (sc *Scenario) hasCancels() bool {
	for _, q := range sc.Reqs {
		if q.CancelAt >= 0 || q.Deadline >= 0 {
			return true
		}
	}
	return false
}
