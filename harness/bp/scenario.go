package bp

import (
	"fmt"
	"math/rand/v2"
	"sort"
	"strings"
	"time"

	"go.opentelemetry.io/collector/pdata/pcommon"
	"go.opentelemetry.io/collector/pdata/plog"
	"go.opentelemetry.io/collector/pdata/pmetric"
	"go.opentelemetry.io/collector/pdata/ptrace"

	cbp "github.com/open-telemetry/otel-arrow/collector/processor/concurrentbatchprocessor"
)

type Signal int

const (
	Traces Signal = iota
	Logs
	Metrics
)

func (s Signal) String() string { return [...]string{"traces", "logs", "metrics"}[s] }

// Cfg mirrors the processor configuration (kept symbolic for reports).
type Cfg struct {
	SendBatchSize    uint32
	SendBatchMaxSize uint32
	Timeout          time.Duration
	MetadataKeys     []string
	CardLimit        uint32
	MaxConcurrency   uint32
	EarlyReturn      bool
}

func (c Cfg) String() string {
	return fmt.Sprintf("size=%d max=%d timeout=%v keys=%v limit=%d conc=%d early=%v", c.SendBatchSize, c.SendBatchMaxSize, c.Timeout, c.MetadataKeys, c.CardLimit, c.MaxConcurrency, c.EarlyReturn)
}

func (c Cfg) Config() *cbp.Config {
	return &cbp.Config{SendBatchSize: c.SendBatchSize, SendBatchMaxSize: c.SendBatchMaxSize, Timeout: c.Timeout, MetadataKeys: c.MetadataKeys,
		MetadataCardinalityLimit: c.CardLimit, MaxConcurrency: c.MaxConcurrency, EarlyReturn: c.EarlyReturn}
}

// HasTimer mirrors the component's documented behaviour: a flush timer exists only when both
// timeout and send_batch_size are non-zero.
func (c Cfg) HasTimer() bool { return c.Timeout > 0 && c.SendBatchSize > 0 }

// MetricSpec is one metric of a request: kind 1..5 (gauge, sum, histogram, exp histogram, summary) or 0 (empty).
type MetricSpec struct {
	Kind   int
	Points int
}

// ScopeSpec holds either Items (traces/logs) or Metrics.
type ScopeSpec struct {
	Items   int
	Metrics []MetricSpec
}

type ResSpec struct{ Scopes []ScopeSpec }

// ReqSpec is one Consume call.
type ReqSpec struct {
	Caller     int
	Req        int
	At         time.Duration // virtual arrival instant (relative to scenario start); callers run their requests in order
	Res        []ResSpec
	TraceGroup int                 // >=0: the caller span is a child of the shared upstream span of that group (same trace id)
	CtxGroup   int                 // requests of one caller with the same group share ONE context object
	Meta       map[string][]string // client metadata of the request context
	CancelAt   time.Duration       // <0: never
	Deadline   time.Duration       // <0: none; relative to the call
	items      int
}

func (r *ReqSpec) ID() string { return fmt.Sprintf("c%d.r%d", r.Caller, r.Req) }

// Scenario is one generated execution.
type Scenario struct {
	Sig      Signal
	Cfg      Cfg
	Reqs     []*ReqSpec
	Latency  []time.Duration // export latency by arrival index at the sink (cycled)
	Fail     []bool          // export outcome by arrival index (beyond the list: success)
	Shutdown int             // 0: after all callers returned; 1: as soon as every call is enqueued (items may be buffered)
	// hook-delay table: point name -> candidate virtual delays (drawn by hit index); nil = no delays
	HookDelays map[string][]time.Duration
	HookSeed   uint64
	Tracing    bool // callers start their own spans (C18)
	EndSpans   bool // a caller that owns its span ends it as soon as its call returns (as `defer span.End()` does)
	// CtxHooks wraps every request context so that Err() passes through the "ctx.Err" hook point
	// AFTER computing its answer: a context is arbitrary code and a goroutine may be preempted
	// between a ctx.Err() check and what it does next; the delay widens exactly that window.
	CtxHooks bool
	// CancelOnReturn: a caller that owns its context cancels it as soon as its call returns (the
	// `ctx, cancel := context.WithTimeout(...); defer cancel()` idiom). With early_return the items of the
	// request are then still buffered or in flight under an ended context.
	CancelOnReturn bool
	// DelayAt: exact virtual delay for ONE hit of a hook point, keyed "point#hit" (hit = 0-based count of
	// that point's hits in this run); overrides the table. Used by the delay-sweep layers, which perturb a
	// base run by one (or two) precisely placed delays at a time.
	DelayAt map[string]time.Duration
	Label   string
}

func (sc *Scenario) Describe() map[string]any {
	reqs := make([]string, 0, len(sc.Reqs))
	for _, r := range sc.Reqs {
		s := fmt.Sprintf("%s@%v items=%d ctxgroup=%d", r.ID(), r.At, r.items, r.CtxGroup)
		if len(r.Meta) > 0 {
			s += fmt.Sprintf(" meta=%v", r.Meta)
		}
		if r.CancelAt >= 0 {
			s += fmt.Sprintf(" cancel@%v", r.CancelAt)
		}
		if r.Deadline >= 0 {
			s += fmt.Sprintf(" deadline=%v", r.Deadline)
		}
		reqs = append(reqs, s)
	}
	hd := []string{}
	for k, v := range sc.HookDelays {
		hd = append(hd, fmt.Sprintf("%s:%v", k, v))
	}
	for k, v := range sc.DelayAt {
		hd = append(hd, fmt.Sprintf("%s:=%v", k, v))
	}
	sort.Strings(hd)
	return map[string]any{"label": sc.Label, "signal": sc.Sig.String(), "config": sc.Cfg.String(), "requests": reqs, "export_latency": fmt.Sprint(sc.Latency),
		"export_fail": fmt.Sprint(sc.Fail), "shutdown_mode": sc.Shutdown, "hook_delays": hd, "callers_end_spans_on_return": sc.EndSpans, "callers_cancel_their_context_on_return": sc.CancelOnReturn}
}

// ---------------------------------------------------------------- data with unique ids

type expect struct {
	full string // JSON of (resource, scope, [metric descriptor,] item) in isolation
	req  string
}

// Built is the data of one request plus what must come out of the processor for it.
type Built struct {
	Spec   *ReqSpec
	T      ptrace.Traces
	L      plog.Logs
	M      pmetric.Metrics
	UIDs   []string
	Expect map[string]expect
}

func fillRes(res pcommon.Resource, id string, r *rand.Rand) string {
	res.Attributes().PutStr("res", id)
	res.Attributes().PutStr("shared", "x")
	if r.IntN(2) == 0 {
		res.Attributes().PutInt("n", int64(r.IntN(3)))
	}
	res.SetDroppedAttributesCount(uint32(r.IntN(3)))
	return "https://schema/res/" + id
}

func fillScope(sc pcommon.InstrumentationScope, id string, r *rand.Rand) string {
	sc.SetName("scope-" + id)
	sc.SetVersion(fmt.Sprintf("v%d", r.IntN(3)))
	sc.Attributes().PutStr("sc", id)
	sc.SetDroppedAttributesCount(uint32(r.IntN(2)))
	return "https://schema/scope/" + id
}

// build creates the pdata of a request; every item carries a unique id attribute.
func build(sig Signal, spec *ReqSpec, r *rand.Rand) *Built {
	b := &Built{Spec: spec, Expect: map[string]expect{}}
	rid := spec.ID()
	n := 0
	uid := func() string { n++; return fmt.Sprintf("%s.i%d", rid, n) }
	switch sig {
	case Traces:
		td := ptrace.NewTraces()
		for ri, rs := range spec.Res {
			rsp := td.ResourceSpans().AppendEmpty()
			rsp.SetSchemaUrl(fillRes(rsp.Resource(), fmt.Sprintf("%s.R%d", rid, ri), r))
			for si, ss := range rs.Scopes {
				ssp := rsp.ScopeSpans().AppendEmpty()
				ssp.SetSchemaUrl(fillScope(ssp.Scope(), fmt.Sprintf("%s.R%d.S%d", rid, ri, si), r))
				for i := 0; i < ss.Items; i++ {
					u := uid()
					sp := ssp.Spans().AppendEmpty()
					sp.SetName("span-" + u)
					sp.Attributes().PutStr("uid", u)
					sp.SetKind(ptrace.SpanKind(r.IntN(5)))
					sp.SetStartTimestamp(pcommon.Timestamp(r.Uint64N(1 << 40)))
					sp.SetSpanID(pcommon.SpanID{byte(n), byte(n >> 8), 1})
					if r.IntN(3) == 0 {
						sp.Events().AppendEmpty().SetName("ev-" + u)
					}
					b.UIDs = append(b.UIDs, u)
				}
			}
		}
		b.T = td
		forEachTrace(td, func(u, full string) { b.Expect[u] = expect{full: full, req: rid} })
	case Logs:
		ld := plog.NewLogs()
		for ri, rs := range spec.Res {
			rl := ld.ResourceLogs().AppendEmpty()
			rl.SetSchemaUrl(fillRes(rl.Resource(), fmt.Sprintf("%s.R%d", rid, ri), r))
			for si, ss := range rs.Scopes {
				sl := rl.ScopeLogs().AppendEmpty()
				sl.SetSchemaUrl(fillScope(sl.Scope(), fmt.Sprintf("%s.R%d.S%d", rid, ri, si), r))
				for i := 0; i < ss.Items; i++ {
					u := uid()
					lr := sl.LogRecords().AppendEmpty()
					lr.Body().SetStr("log-" + u)
					lr.Attributes().PutStr("uid", u)
					lr.SetSeverityNumber(plog.SeverityNumber(r.IntN(24)))
					lr.SetTimestamp(pcommon.Timestamp(r.Uint64N(1 << 40)))
					b.UIDs = append(b.UIDs, u)
				}
			}
		}
		b.L = ld
		forEachLog(ld, func(u, full string) { b.Expect[u] = expect{full: full, req: rid} })
	default:
		md := pmetric.NewMetrics()
		for ri, rs := range spec.Res {
			rm := md.ResourceMetrics().AppendEmpty()
			rm.SetSchemaUrl(fillRes(rm.Resource(), fmt.Sprintf("%s.R%d", rid, ri), r))
			for si, ss := range rs.Scopes {
				sm := rm.ScopeMetrics().AppendEmpty()
				sm.SetSchemaUrl(fillScope(sm.Scope(), fmt.Sprintf("%s.R%d.S%d", rid, ri, si), r))
				for mi, ms := range ss.Metrics {
					m := sm.Metrics().AppendEmpty()
					m.SetName(fmt.Sprintf("metric-%s.R%d.S%d.M%d", rid, ri, si, mi))
					m.SetDescription("desc-" + m.Name())
					m.SetUnit(fmt.Sprintf("u%d", r.IntN(3)))
					if r.IntN(2) == 0 {
						m.Metadata().PutStr("md", m.Name())
					}
					mk := func(attrs pcommon.Map) {
						u := uid()
						attrs.PutStr("uid", u)
						b.UIDs = append(b.UIDs, u)
					}
					switch ms.Kind {
					case 1:
						g := m.SetEmptyGauge()
						for i := 0; i < ms.Points; i++ {
							dp := g.DataPoints().AppendEmpty()
							dp.SetIntValue(int64(r.IntN(100)))
							mk(dp.Attributes())
						}
					case 2:
						s := m.SetEmptySum()
						s.SetAggregationTemporality(pmetric.AggregationTemporality(1 + r.IntN(2)))
						s.SetIsMonotonic(r.IntN(2) == 0)
						for i := 0; i < ms.Points; i++ {
							dp := s.DataPoints().AppendEmpty()
							dp.SetDoubleValue(float64(r.IntN(100)))
							mk(dp.Attributes())
						}
					case 3:
						h := m.SetEmptyHistogram()
						h.SetAggregationTemporality(pmetric.AggregationTemporality(1 + r.IntN(2)))
						for i := 0; i < ms.Points; i++ {
							dp := h.DataPoints().AppendEmpty()
							dp.SetCount(uint64(r.IntN(100)))
							dp.BucketCounts().FromRaw([]uint64{1, 2})
							mk(dp.Attributes())
						}
					case 4:
						h := m.SetEmptyExponentialHistogram()
						h.SetAggregationTemporality(pmetric.AggregationTemporality(1 + r.IntN(2)))
						for i := 0; i < ms.Points; i++ {
							dp := h.DataPoints().AppendEmpty()
							dp.SetCount(uint64(r.IntN(100)))
							dp.SetScale(int32(r.IntN(4)))
							mk(dp.Attributes())
						}
					case 5:
						s := m.SetEmptySummary()
						for i := 0; i < ms.Points; i++ {
							dp := s.DataPoints().AppendEmpty()
							dp.SetCount(uint64(r.IntN(100)))
							mk(dp.Attributes())
						}
					}
				}
			}
		}
		b.M = md
		forEachPoint(md, func(u, full string) { b.Expect[u] = expect{full: full, req: rid} })
	}
	spec.items = len(b.UIDs)
	return b
}

func uidOf(m pcommon.Map) string {
	if v, ok := m.Get("uid"); ok {
		return v.Str()
	}
	return "<no-uid>"
}

var (
	tJSON = &ptrace.JSONMarshaler{}
	lJSON = &plog.JSONMarshaler{}
	mJSON = &pmetric.JSONMarshaler{}
)

// forEachTrace calls f(uid, JSON of the span alone under copies of its resource and scope).
func forEachTrace(td ptrace.Traces, f func(uid, full string)) {
	for i := 0; i < td.ResourceSpans().Len(); i++ {
		rs := td.ResourceSpans().At(i)
		for j := 0; j < rs.ScopeSpans().Len(); j++ {
			ss := rs.ScopeSpans().At(j)
			for k := 0; k < ss.Spans().Len(); k++ {
				sp := ss.Spans().At(k)
				tmp := ptrace.NewTraces()
				trs := tmp.ResourceSpans().AppendEmpty()
				rs.Resource().CopyTo(trs.Resource())
				trs.SetSchemaUrl(rs.SchemaUrl())
				tss := trs.ScopeSpans().AppendEmpty()
				ss.Scope().CopyTo(tss.Scope())
				tss.SetSchemaUrl(ss.SchemaUrl())
				sp.CopyTo(tss.Spans().AppendEmpty())
				b, _ := tJSON.MarshalTraces(tmp)
				f(uidOf(sp.Attributes()), string(b))
			}
		}
	}
}

func forEachLog(ld plog.Logs, f func(uid, full string)) {
	for i := 0; i < ld.ResourceLogs().Len(); i++ {
		rl := ld.ResourceLogs().At(i)
		for j := 0; j < rl.ScopeLogs().Len(); j++ {
			sl := rl.ScopeLogs().At(j)
			for k := 0; k < sl.LogRecords().Len(); k++ {
				lr := sl.LogRecords().At(k)
				tmp := plog.NewLogs()
				trl := tmp.ResourceLogs().AppendEmpty()
				rl.Resource().CopyTo(trl.Resource())
				trl.SetSchemaUrl(rl.SchemaUrl())
				tsl := trl.ScopeLogs().AppendEmpty()
				sl.Scope().CopyTo(tsl.Scope())
				tsl.SetSchemaUrl(sl.SchemaUrl())
				lr.CopyTo(tsl.LogRecords().AppendEmpty())
				b, _ := lJSON.MarshalLogs(tmp)
				f(uidOf(lr.Attributes()), string(b))
			}
		}
	}
}

// forEachPoint calls f for every data point with the JSON of (resource, scope, metric descriptor, point).
// The descriptor includes the metric's Metadata map.
func forEachPoint(md pmetric.Metrics, f func(uid, full string)) {
	for i := 0; i < md.ResourceMetrics().Len(); i++ {
		rm := md.ResourceMetrics().At(i)
		for j := 0; j < rm.ScopeMetrics().Len(); j++ {
			sm := rm.ScopeMetrics().At(j)
			for k := 0; k < sm.Metrics().Len(); k++ {
				m := sm.Metrics().At(k)
				one := func(attrs pcommon.Map, put func(dst pmetric.Metric)) {
					tmp := pmetric.NewMetrics()
					trm := tmp.ResourceMetrics().AppendEmpty()
					rm.Resource().CopyTo(trm.Resource())
					trm.SetSchemaUrl(rm.SchemaUrl())
					tsm := trm.ScopeMetrics().AppendEmpty()
					sm.Scope().CopyTo(tsm.Scope())
					tsm.SetSchemaUrl(sm.SchemaUrl())
					dm := tsm.Metrics().AppendEmpty()
					dm.SetName(m.Name())
					dm.SetDescription(m.Description())
					dm.SetUnit(m.Unit())
					m.Metadata().CopyTo(dm.Metadata())
					put(dm)
					b, _ := mJSON.MarshalMetrics(tmp)
					f(uidOf(attrs), string(b))
				}
				switch m.Type() {
				case pmetric.MetricTypeGauge:
					for p := 0; p < m.Gauge().DataPoints().Len(); p++ {
						dp := m.Gauge().DataPoints().At(p)
						one(dp.Attributes(), func(d pmetric.Metric) { dp.CopyTo(d.SetEmptyGauge().DataPoints().AppendEmpty()) })
					}
				case pmetric.MetricTypeSum:
					for p := 0; p < m.Sum().DataPoints().Len(); p++ {
						dp := m.Sum().DataPoints().At(p)
						one(dp.Attributes(), func(d pmetric.Metric) {
							s := d.SetEmptySum()
							s.SetAggregationTemporality(m.Sum().AggregationTemporality())
							s.SetIsMonotonic(m.Sum().IsMonotonic())
							dp.CopyTo(s.DataPoints().AppendEmpty())
						})
					}
				case pmetric.MetricTypeHistogram:
					for p := 0; p < m.Histogram().DataPoints().Len(); p++ {
						dp := m.Histogram().DataPoints().At(p)
						one(dp.Attributes(), func(d pmetric.Metric) {
							h := d.SetEmptyHistogram()
							h.SetAggregationTemporality(m.Histogram().AggregationTemporality())
							dp.CopyTo(h.DataPoints().AppendEmpty())
						})
					}
				case pmetric.MetricTypeExponentialHistogram:
					for p := 0; p < m.ExponentialHistogram().DataPoints().Len(); p++ {
						dp := m.ExponentialHistogram().DataPoints().At(p)
						one(dp.Attributes(), func(d pmetric.Metric) {
							h := d.SetEmptyExponentialHistogram()
							h.SetAggregationTemporality(m.ExponentialHistogram().AggregationTemporality())
							dp.CopyTo(h.DataPoints().AppendEmpty())
						})
					}
				case pmetric.MetricTypeSummary:
					for p := 0; p < m.Summary().DataPoints().Len(); p++ {
						dp := m.Summary().DataPoints().At(p)
						one(dp.Attributes(), func(d pmetric.Metric) { dp.CopyTo(d.SetEmptySummary().DataPoints().AppendEmpty()) })
					}
				}
			}
		}
	}
}

// combo is the ordered value list of a request for the configured keys (lookups are
// case-insensitive, as client.Metadata.Get is).
func combo(keys []string, meta map[string][]string) string {
	if len(keys) == 0 {
		return ""
	}
	ks := make([]string, len(keys))
	for i, k := range keys {
		ks[i] = strings.ToLower(k)
	}
	sort.Strings(ks)
	var sb strings.Builder
	for _, k := range ks {
		var vs []string
		for mk, mv := range meta {
			if strings.ToLower(mk) == k {
				vs = mv
			}
		}
		fmt.Fprintf(&sb, "%s=%q;", k, vs)
	}
	return sb.String()
}
