package bp

import (
	"context"
	"fmt"
	"strings"
	"sync"
	"sync/atomic"
	"time"

	"go.opentelemetry.io/collector/client"
	"go.opentelemetry.io/collector/component/componenttest"
	"go.opentelemetry.io/collector/consumer"
	"go.opentelemetry.io/collector/consumer/consumererror"
	"go.opentelemetry.io/collector/pdata/plog"
	"go.opentelemetry.io/collector/processor/processortest"

	cbp "github.com/open-telemetry/otel-arrow/collector/processor/concurrentbatchprocessor"
)

type hammerResult struct {
	calls, refused, bad, exported int64
	firstBad                      string
	err                           error
}

type hammerSink struct{ overLimitItems atomic.Int64 }

func (s *hammerSink) Capabilities() consumer.Capabilities { return consumer.Capabilities{} }
func (s *hammerSink) ConsumeLogs(_ context.Context, ld plog.Logs) error {
	for i := 0; i < ld.ResourceLogs().Len(); i++ {
		if v, ok := ld.ResourceLogs().At(i).Resource().Attributes().Get("over"); ok && v.Bool() {
			s.overLimitItems.Add(int64(ld.ResourceLogs().At(i).ScopeLogs().Len()))
		}
	}
	return nil
}

func oneLog(over bool) plog.Logs {
	ld := plog.NewLogs()
	rl := ld.ResourceLogs().AppendEmpty()
	rl.Resource().Attributes().PutBool("over", over)
	rl.ScopeLogs().AppendEmpty().LogRecords().AppendEmpty().Body().SetStr("x")
	return ld
}

func tenantCtx(t string) context.Context {
	return client.NewContext(context.Background(), client.Info{Metadata: client.NewMetadata(map[string][]string{"tenant": {t}})})
}

// hammerOverLimit fills the cardinality limit with `limit` combinations (sequentially, so that they
// are admitted before anything else happens) and then lets `goroutines` goroutines make `perG` calls
// each for `overCombos` combinations beyond the limit.
func hammerOverLimit(limit int, early bool, goroutines, perG, overCombos int) (res hammerResult) {
	hookMu.Lock()
	defer hookMu.Unlock()
	f := cbp.NewFactory()
	cfg := &cbp.Config{SendBatchSize: 1, Timeout: time.Second, MetadataKeys: []string{"tenant"}, MetadataCardinalityLimit: uint32(limit), EarlyReturn: early}
	sk := &hammerSink{}
	p, err := f.CreateLogs(context.Background(), processortest.NewNopSettings(f.Type()), cfg, sk)
	if err != nil {
		res.err = err
		return
	}
	if err := p.Start(context.Background(), componenttest.NewNopHost()); err != nil {
		res.err = err
		return
	}
	for i := 0; i < limit; i++ {
		if err := p.ConsumeLogs(tenantCtx(fmt.Sprintf("admitted-%d", i)), oneLog(false)); err != nil {
			res.err = fmt.Errorf("filler %d: %w", i, err)
			return
		}
	}
	var wg sync.WaitGroup
	var calls, refused, bad atomic.Int64
	var first atomic.Value
	start := make(chan struct{})
	for g := 0; g < goroutines; g++ {
		wg.Add(1)
		go func(g int) {
			defer wg.Done()
			<-start
			for i := 0; i < perG && bad.Load() == 0; i++ {
				// a bounded context: a call that is wrongly admitted to a never-started shard must not hang the run
				ctx, cancel := context.WithTimeout(tenantCtx(fmt.Sprintf("over-%d", (g+i)%overCombos)), 200*time.Millisecond)
				err := p.ConsumeLogs(ctx, oneLog(true))
				cancel()
				calls.Add(1)
				if err != nil && consumererror.IsPermanent(err) && strings.Contains(err.Error(), "too many batcher") {
					refused.Add(1)
					continue
				}
				bad.Add(1)
				first.CompareAndSwap(nil, fmt.Sprintf("goroutine %d call %d returned %v", g, i, err))
			}
		}(g)
	}
	close(start)
	wg.Wait()
	done := make(chan struct{})
	go func() { _ = p.Shutdown(context.Background()); close(done) }()
	select {
	case <-done:
	case <-time.After(30 * time.Second):
	}
	res.calls, res.refused, res.bad, res.exported = calls.Load(), refused.Load(), bad.Load(), sk.overLimitItems.Load()
	if v := first.Load(); v != nil {
		res.firstBad = v.(string)
	}
	return
}
