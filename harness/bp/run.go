package bp

import (
	"context"
	"errors"
	"fmt"
	"math/rand/v2"
	"runtime"
	"strings"
	"sync"
	"sync/atomic"
	"time"

	"go.opentelemetry.io/collector/client"
	"go.opentelemetry.io/collector/component"
	"go.opentelemetry.io/collector/component/componenttest"
	"go.opentelemetry.io/collector/consumer"
	"go.opentelemetry.io/collector/consumer/consumererror"
	"go.opentelemetry.io/collector/pdata/plog"
	"go.opentelemetry.io/collector/pdata/pmetric"
	"go.opentelemetry.io/collector/pdata/ptrace"
	"go.opentelemetry.io/collector/processor"
	"go.opentelemetry.io/collector/processor/processortest"
	sdktrace "go.opentelemetry.io/otel/sdk/trace"
	"go.opentelemetry.io/otel/sdk/trace/tracetest"
	"go.opentelemetry.io/otel/trace"

	cbp "github.com/open-telemetry/otel-arrow/collector/processor/concurrentbatchprocessor"
)

type ctxKey struct{}

// Ev is one record of the boundary event log (DESIGN §5.4).
type Ev struct {
	Seq  int
	VT   time.Duration
	Kind string // call ret enq cancel export_begin export_end shutdown_call shutdown_ret hook stuck

	Req string // request id for call/ret/enq/cancel/hook (when known)

	// ret
	Err          error
	ErrPermanent bool

	// export_*
	Export    int
	Items     []ItemOut
	Size      int
	Combo     string // combination derived from the exported items' requests is computed offline; this is what the export ctx shows
	CtxReq    string // value of the caller key found in the export context ("" = none)
	CtxErr    error  // ctx.Err() at this point
	DoneFired bool   // export_end: ctx.Done() fired during the export
	MetaSeen  map[string][]string
	SpanCtx   trace.SpanContext
	InFlight  int // export_begin: in flight for this client-metadata combination after increment
	InFlightG int // export_begin: in flight globally after increment
	Latency   time.Duration

	Point string // hook
}

// ItemOut is one exported item as seen by the next consumer.
type ItemOut struct {
	UID  string
	Full string // JSON of (resource, scope, [metric,] item) in isolation
}

// Run is the state of one scenario execution.
type Run struct {
	Sc     *Scenario
	Built  map[string]*Built // by request id; read-only once goroutines start
	Expect map[string]expect // uid -> expectation; read-only once goroutines start
	Stress bool

	mu      sync.Mutex
	log     []Ev
	start   time.Time
	exports int
	inflt   map[string]int
	infltG  int

	changed        chan struct{} // poked whenever a call starts, is enqueued or returns
	pendingEnqueue atomic.Int64
	returned       map[string]bool
	cancels        map[string]context.CancelFunc

	hookHits map[string]int
	curReq   map[uint64]string // caller goroutine id -> request it is executing
	enqSeen  map[string]bool

	Spans    *tracetest.SpanRecorder
	reqSpans map[string]trace.SpanContext // caller span per request id
	failErrs map[int]error
}

func (r *Run) vt() time.Duration { return time.Since(r.start) }

func (r *Run) poke() {
	select {
	case r.changed <- struct{}{}:
	default:
	}
}

func (r *Run) add(e Ev) {
	r.mu.Lock()
	e.Seq = len(r.log)
	e.VT = r.vt()
	r.log = append(r.log, e)
	r.mu.Unlock()
}

// Log returns the recorded events (call after the run).
func (r *Run) Log() []Ev { return r.log }

// ---------------------------------------------------------------- sink (next consumer)

type sink struct{ r *Run }

func (s *sink) Capabilities() consumer.Capabilities { return consumer.Capabilities{MutatesData: false} }

func (s *sink) export(ctx context.Context, items []ItemOut) error {
	r := s.r
	info := client.FromContext(ctx)
	seen := map[string][]string{}
	for _, k := range r.Sc.Cfg.MetadataKeys {
		seen[strings.ToLower(k)] = info.Metadata.Get(k)
	}
	key := combo(r.Sc.Cfg.MetadataKeys, seen)
	ctxReq, _ := ctx.Value(ctxKey{}).(string)
	ctxErrAtBegin := ctx.Err() // outside the log mutex: a hooked context re-enters the monitor
	r.mu.Lock()
	n := r.exports
	r.exports++
	r.inflt[key]++
	r.infltG++
	lat := time.Duration(0)
	if len(r.Sc.Latency) > 0 {
		lat = r.Sc.Latency[n%len(r.Sc.Latency)]
	}
	fail := n < len(r.Sc.Fail) && r.Sc.Fail[n]
	var ferr error
	if fail {
		ferr = fmt.Errorf("export-%d-failed", n)
		r.failErrs[n] = ferr
	}
	e := Ev{Kind: "export_begin", Export: n, Items: items, Size: len(items), CtxReq: ctxReq, CtxErr: ctxErrAtBegin, MetaSeen: seen,
		SpanCtx: trace.SpanContextFromContext(ctx), InFlight: r.inflt[key], InFlightG: r.infltG, Latency: lat, Combo: key}
	e.Seq = len(r.log)
	e.VT = r.vt()
	r.log = append(r.log, e)
	r.mu.Unlock()

	// a downstream consumer that honours context cancellation
	done := false
	var err error
	if r.Stress {
		for i := 0; i < int(lat/time.Millisecond)%4; i++ {
			runtime.Gosched()
		}
		if ctx.Err() != nil {
			done, err = true, ctx.Err()
		}
	} else if lat > 0 {
		t := time.NewTimer(lat)
		select {
		case <-ctx.Done():
			done, err = true, ctx.Err()
			t.Stop()
		case <-t.C:
		}
	} else if ctx.Err() != nil {
		done, err = true, ctx.Err()
	}
	if err == nil && ferr != nil {
		err = ferr
	}
	ctxErrAtEnd := ctx.Err()
	r.mu.Lock()
	r.inflt[key]--
	r.infltG--
	e2 := Ev{Kind: "export_end", Export: n, Err: err, CtxErr: ctxErrAtEnd, DoneFired: done, Combo: key}
	e2.Seq = len(r.log)
	e2.VT = r.vt()
	r.log = append(r.log, e2)
	r.mu.Unlock()
	return err
}

func (s *sink) ConsumeTraces(ctx context.Context, td ptrace.Traces) error {
	var items []ItemOut
	forEachTrace(td, func(u, full string) { items = append(items, ItemOut{UID: u, Full: full}) })
	return s.export(ctx, items)
}

func (s *sink) ConsumeLogs(ctx context.Context, ld plog.Logs) error {
	var items []ItemOut
	forEachLog(ld, func(u, full string) { items = append(items, ItemOut{UID: u, Full: full}) })
	return s.export(ctx, items)
}

func (s *sink) ConsumeMetrics(ctx context.Context, md pmetric.Metrics) error {
	var items []ItemOut
	forEachPoint(md, func(u, full string) { items = append(items, ItemOut{UID: u, Full: full}) })
	return s.export(ctx, items)
}

// ---------------------------------------------------------------- hooks

var hookMu sync.Mutex // one scenario at a time owns the package-level hook

func mixu(h uint64) uint64 {
	h += 0x9e3779b97f4a7c15
	h = (h ^ (h >> 30)) * 0xbf58476d1ce4e5b9
	h = (h ^ (h >> 27)) * 0x94d049bb133111eb
	return h ^ (h >> 31)
}

func strh(s string) uint64 {
	var h uint64 = 1469598103934665603
	for i := 0; i < len(s); i++ {
		h ^= uint64(s[i])
		h *= 1099511628211
	}
	return h
}

// goid parses the current goroutine's id (contexts may be shared by several requests, so
// the request a hook belongs to is found through the calling goroutine).
func goid() uint64 {
	var buf [64]byte
	n := runtime.Stack(buf[:], false)
	var id uint64
	for _, c := range buf[len("goroutine "):n] {
		if c < '0' || c > '9' {
			break
		}
		id = id*10 + uint64(c-'0')
	}
	return id
}

func (r *Run) hook(name string, ctx context.Context) {
	req := ""
	g := uint64(0)
	if strings.HasPrefix(name, "consume.") || name == "wait.response" || name == "multi.miss_before_lock" {
		g = goid()
	}
	r.mu.Lock()
	if g != 0 {
		req = r.curReq[g]
	}
	if name == "consume.enqueued" {
		r.enqSeen[req] = true
	}
	hit := r.hookHits[name]
	r.hookHits[name]++
	e := Ev{Kind: "hook", Point: name, Req: req}
	e.Seq = len(r.log)
	e.VT = r.vt()
	r.log = append(r.log, e)
	r.mu.Unlock()
	if name == "consume.enqueued" {
		r.pendingEnqueue.Add(-1)
		r.add(Ev{Kind: "enq", Req: req})
		r.poke()
	}
	ds := r.Sc.HookDelays[name]
	var d time.Duration
	if len(ds) > 0 {
		d = ds[mixu(r.Sc.HookSeed^strh(name)^mixu(uint64(hit)))%uint64(len(ds))]
	}
	if len(r.Sc.DelayAt) > 0 {
		if x, ok := r.Sc.DelayAt[fmt.Sprintf("%s#%d", name, hit)]; ok {
			d = x
		}
	}
	if d == 0 {
		return
	}
	if r.Stress {
		for i := 0; i < int(d%5); i++ {
			runtime.Gosched()
		}
		return
	}
	if d > 0 {
		time.Sleep(d)
	}
}

// ErrShutdownStuck is returned by Exec in stress mode when Shutdown did not return within 30 s.
var ErrShutdownStuck = errors.New("stress run: Shutdown did not return within the 30 s wall-clock watchdog")

// hookCtx is a request context whose Err() returns its (possibly stale by then) answer after
// passing through the "ctx.Err" hook point.
type hookCtx struct {
	context.Context
	r *Run
}

func (h *hookCtx) Err() error {
	e := h.Context.Err()
	h.r.hook("ctx.Err", nil)
	return e
}

// ---------------------------------------------------------------- execution

type processorAPI interface {
	component.Component
}

// Exec runs the scenario to completion (inside a synctest bubble, or in real time when
// r.Stress). It returns after Shutdown returned. stuck lists requests that had not returned
// one hour of virtual time after the last scripted activity (they are released by cancelling
// their contexts so that the run can finish and be judged).
func (r *Run) Exec() (stuck []string, err error) {
	sc := r.Sc
	hookMu.Lock()
	defer hookMu.Unlock()
	r.start = time.Now()
	r.inflt = map[string]int{}
	r.returned = map[string]bool{}
	r.cancels = map[string]context.CancelFunc{}
	r.hookHits = map[string]int{}
	r.changed = make(chan struct{}, 1)
	r.curReq = map[uint64]string{}
	r.enqSeen = map[string]bool{}
	r.reqSpans = map[string]trace.SpanContext{}
	r.failErrs = map[int]error{}
	cbp.VerifPoint = r.hook
	defer func() { cbp.VerifPoint = nil }()

	r.Spans = tracetest.NewSpanRecorder()
	tp := sdktrace.NewTracerProvider(sdktrace.WithSpanProcessor(r.Spans), sdktrace.WithSampler(sdktrace.AlwaysSample()))
	factory := cbp.NewFactory()
	set := processortest.NewNopSettings(factory.Type())
	set.TelemetrySettings = componenttest.NewNopTelemetrySettings()
	set.TelemetrySettings.TracerProvider = tp
	cfg := sc.Cfg.Config()
	if verr := cfg.Validate(); verr != nil {
		return nil, fmt.Errorf("invalid config: %w", verr)
	}
	sk := &sink{r: r}
	var proc component.Component
	var consume func(ctx context.Context, b *Built) error
	switch sc.Sig {
	case Traces:
		p, e := factory.CreateTraces(context.Background(), processor.Settings(set), cfg, sk)
		if e != nil {
			return nil, e
		}
		proc = p
		consume = func(ctx context.Context, b *Built) error { return p.ConsumeTraces(ctx, b.T) }
	case Logs:
		p, e := factory.CreateLogs(context.Background(), processor.Settings(set), cfg, sk)
		if e != nil {
			return nil, e
		}
		proc = p
		consume = func(ctx context.Context, b *Built) error { return p.ConsumeLogs(ctx, b.L) }
	default:
		p, e := factory.CreateMetrics(context.Background(), processor.Settings(set), cfg, sk)
		if e != nil {
			return nil, e
		}
		proc = p
		consume = func(ctx context.Context, b *Built) error { return p.ConsumeMetrics(ctx, b.M) }
	}
	if e := proc.Start(context.Background(), componenttest.NewNopHost()); e != nil {
		return nil, e
	}
	tracer := tp.Tracer("caller")

	// per caller: requests in order. Contexts (and caller spans) are created before goroutines start.
	type call struct {
		spec   *ReqSpec
		ctx    context.Context
		cancel context.CancelFunc
		span   trace.Span
	}
	callers := map[int][]*call{}
	groupCtx := map[string]*call{}
	var order []int
	var spans []trace.Span
	upstream := map[int]trace.Span{}
	for _, spec := range sc.Reqs {
		gk := fmt.Sprintf("%d/%d", spec.Caller, spec.CtxGroup)
		c := &call{spec: spec}
		if g, ok := groupCtx[gk]; ok && spec.CtxGroup >= 0 {
			c.ctx, c.cancel, c.span = g.ctx, g.cancel, g.span
		} else {
			base := context.WithValue(context.Background(), ctxKey{}, spec.ID())
			if spec.Meta != nil {
				base = client.NewContext(base, client.Info{Metadata: client.NewMetadata(spec.Meta)})
			}
			if sc.Tracing {
				if spec.TraceGroup > 0 {
					// sibling spans of one upstream request: distinct contexts and spans, same trace id
					up, ok := upstream[spec.TraceGroup]
					if !ok {
						_, up = tracer.Start(context.Background(), fmt.Sprintf("upstream/%d", spec.TraceGroup))
						upstream[spec.TraceGroup] = up
						spans = append(spans, up)
					}
					base = trace.ContextWithSpan(base, up)
				}
				base, c.span = tracer.Start(base, "caller/"+spec.ID())
				spans = append(spans, c.span)
			}
			c.ctx, c.cancel = context.WithCancel(base)
			if sc.CtxHooks {
				c.ctx = &hookCtx{Context: c.ctx, r: r}
			}
			if spec.CtxGroup >= 0 {
				groupCtx[gk] = c
			}
		}
		if c.span != nil {
			r.reqSpans[spec.ID()] = c.span.SpanContext()
		}
		r.cancels[spec.ID()] = c.cancel
		if _, ok := callers[spec.Caller]; !ok {
			order = append(order, spec.Caller)
		}
		callers[spec.Caller] = append(callers[spec.Caller], c)
	}
	r.pendingEnqueue.Store(0)
	var wg sync.WaitGroup
	var lastAt time.Duration
	for _, spec := range sc.Reqs {
		if spec.At > lastAt {
			lastAt = spec.At
		}
		if spec.CancelAt > lastAt {
			lastAt = spec.CancelAt
		}
	}
	var started atomic.Int64
	for _, cid := range order {
		calls := callers[cid]
		wg.Add(1)
		go func() {
			defer wg.Done()
			for _, c := range calls {
				if !r.Stress {
					if d := c.spec.At - r.vt(); d > 0 {
						time.Sleep(d)
					}
				}
				ctx := c.ctx
				var dcancel context.CancelFunc
				if c.spec.Deadline >= 0 && !r.Stress {
					ctx, dcancel = context.WithTimeout(ctx, c.spec.Deadline)
				}
				b := r.Built[c.spec.ID()]
				me := goid()
				r.mu.Lock()
				r.curReq[me] = c.spec.ID()
				r.mu.Unlock()
				r.pendingEnqueue.Add(1)
				started.Add(1)
				r.add(Ev{Kind: "call", Req: c.spec.ID()})
				e := consume(ctx, b)
				// a call that returned without the enqueued hook firing never entered a shard
				r.mu.Lock()
				enq := r.enqSeen[c.spec.ID()]
				r.returned[c.spec.ID()] = true
				delete(r.curReq, me)
				r.mu.Unlock()
				if !enq {
					r.pendingEnqueue.Add(-1)
				}
				r.add(Ev{Kind: "ret", Req: c.spec.ID(), Err: e, ErrPermanent: e != nil && consumererror.IsPermanent(e)})
				if sc.CancelOnReturn && c.spec.CtxGroup < 0 {
					r.add(Ev{Kind: "cancel", Req: c.spec.ID()}) // after ret: the caller's `defer cancel()`
					c.cancel()
				}
				if sc.EndSpans && c.span != nil && c.spec.CtxGroup < 0 {
					// logged BEFORE End(): an export that began before this event added its link back to a live span
					r.add(Ev{Kind: "span_ending", Req: c.spec.ID()})
					c.span.End()
				}
				r.poke()
				if dcancel != nil {
					dcancel()
				}
			}
		}()
	}
	// scripted cancellations
	for _, spec := range sc.Reqs {
		if spec.CancelAt >= 0 {
			spec := spec
			wg.Add(1)
			go func() {
				defer wg.Done()
				if !r.Stress {
					if d := spec.CancelAt - r.vt(); d > 0 {
						time.Sleep(d)
					}
				} else {
					for i := 0; i < int(spec.CancelAt/time.Millisecond)%50; i++ {
						runtime.Gosched()
					}
				}
				r.add(Ev{Kind: "cancel", Req: spec.ID()})
				r.cancels[spec.ID()]()
			}()
		}
	}
	allDone := make(chan struct{})
	go func() { wg.Wait(); close(allDone) }()

	total := int64(len(sc.Reqs))
	horizon := lastAt + time.Hour
	release := func() {
		r.mu.Lock()
		for _, spec := range sc.Reqs {
			if !r.returned[spec.ID()] {
				stuck = append(stuck, spec.ID())
			}
		}
		r.mu.Unlock()
		for _, id := range stuck {
			r.add(Ev{Kind: "stuck", Req: id})
			r.cancels[id]()
		}
		<-allDone
	}
	if r.Stress {
		// real time: a wall-clock watchdog (30 s) only turns a hang into a released, recorded `stuck`
		// run; engines treat it as inconclusive unless a hang is the property's violation
		wd := time.NewTimer(30 * time.Second)
		if sc.Shutdown == 1 {
			for started.Load() < total || r.pendingEnqueue.Load() > 0 {
				runtime.Gosched()
				select {
				case <-wd.C:
					release()
				default:
					continue
				}
				break
			}
		} else {
			select {
			case <-allDone:
			case <-wd.C:
				release()
			}
		}
		wd.Stop()
	} else if sc.Shutdown == 1 {
		// shut down as soon as every scripted call has been made and is enqueued (or has returned)
		t := time.NewTimer(horizon)
		for started.Load() < total || r.pendingEnqueue.Load() > 0 {
			select {
			case <-r.changed:
				continue
			case <-t.C:
				release()
			}
			break
		}
		t.Stop()
	} else {
		// horizon: one hour of virtual time after the last scripted activity
		t := time.NewTimer(horizon)
		select {
		case <-allDone:
			t.Stop()
		case <-t.C:
			release()
		}
	}
	r.add(Ev{Kind: "shutdown_call"})
	var serr error
	if r.Stress {
		// real time: Shutdown gets a 30 s wall-clock watchdog so that the process can go on; the run
		// is then inconclusive (the sound verdict on a Shutdown that never returns is the bubble's
		// logical deadlock detector)
		done := make(chan error, 1)
		go func() { done <- proc.Shutdown(context.Background()) }()
		select {
		case serr = <-done:
		case <-time.After(30 * time.Second):
			for _, c := range r.cancels {
				c()
			}
			return stuck, ErrShutdownStuck
		}
	} else {
		serr = proc.Shutdown(context.Background())
	}
	r.add(Ev{Kind: "shutdown_ret", Err: serr})
	if r.Stress {
		select {
		case <-allDone:
		case <-time.After(30 * time.Second):
			release()
		}
	} else {
		// callers that are still blocked after Shutdown (stranded waiters) are released at the horizon
		t := time.NewTimer(durMax(horizon-r.vt(), 0) + time.Hour)
		select {
		case <-allDone:
			t.Stop()
		case <-t.C:
			release()
		}
	}
	for _, s := range spans {
		s.End() // caller spans stay open until after Shutdown (link-back needs a live span)
	}
	for _, c := range r.cancels {
		c()
	}
	if serr != nil {
		return stuck, errors.Join(errors.New("Shutdown returned an error"), serr)
	}
	return stuck, nil
}

func newRand(seed uint64) *rand.Rand { return rand.New(rand.NewPCG(seed, mixu(seed))) }

// NewRun builds all request data (before any goroutine starts).
func NewRun(sc *Scenario, dataSeed uint64) *Run {
	r := &Run{Sc: sc, Built: map[string]*Built{}, Expect: map[string]expect{}}
	rng := newRand(dataSeed)
	for _, spec := range sc.Reqs {
		b := build(sc.Sig, spec, rng)
		r.Built[spec.ID()] = b
		for u, e := range b.Expect {
			r.Expect[u] = e
		}
	}
	return r
}
