package bp

import (
	"fmt"
	"runtime"
	"sort"
	"strings"
	"testing"
	"time"

	"github.com/anishathalye/porcupine"

	"verif/common/vc"
)

// ---------------------------------------------------------------- C06

func TestC06(t *testing.T) {
	r := vc.NewRunner(t, "C06")
	defer r.Close()
	r.Meta(vc.Meta{
		Level:       "fault_enumeration",
		Rule:        "case = one scenario with concurrent callers whose requests are merged and split across batches, an export outcome script and caller cancellations/deadlines, run in a synctest bubble. Layer 'outcomes' takes a base scenario with k<=6 exports and runs ALL 2^k success/failure assignments of its export sequence; layer 'cancel' places a cancellation of one request at every distinct virtual instant of a base scenario's event log (before enqueue, while buffered, while exporting, after) and at +-1ns around it; layer 'random' samples scenarios with PRNG scripts and hook delays; layer 'delay-sweep' runs a base scenario without hook delays and re-runs it once per (hook hit, duration) with exactly that one hit held back (then PRNG pairs of hits). Oracle (offline, over the boundary log): early_return=false and own context alive: ret follows the export_end of every export that carried one of its uids, all uids were exported, err==nil iff all those exports returned nil, else errors.Is(err, e) for every failing export e; own context ended first: ret at the same virtual instant with errors.Is(err, ctx.Err()), items at most once; early_return=true: nil at the instant the request was queued. A call that has not returned one hour of virtual time after the last scripted activity, or a bubble deadlock, is a violation. Non-trivial = a request spread over >=2 batches or a batch serving >=2 requests with >=1 failing export. Distinct = (config, requests, failure script, cancel point).",
		Assumptions: append([]string{"'promptly' is restated as: zero virtual time after the context ended (no caller-side hook delays in scenarios with cancellations)", "export outcomes are assigned by arrival order at the next consumer"}, bpAssumptions...),
		Gates: map[string]map[string]int{
			"quick":    {"scenarios": 500, "requests_spread_over_2+_batches": 100, "requests_with_failing_export": 100, "requests_cancelled_before_completion": 40, "batches_serving_2+_requests": 100, "outcome_assignments_enumerated": 100, "calls_that_blocked_on_a_full_shard_channel": 20, "delay_sweep_single_delays_enumerated": 1000},
			"thorough": {"scenarios": 15000, "requests_spread_over_2+_batches": 3000, "requests_with_failing_export": 3000, "requests_cancelled_before_completion": 1000, "batches_serving_2+_requests": 3000, "outcome_assignments_enumerated": 3000, "calls_that_blocked_on_a_full_shard_channel": 300, "delay_sweep_single_delays_enumerated": 30000},
		},
		ExhaustiveLayers:   []string{"outcomes (all 2^k failure assignments for k<=6 exports)", "cancel (every distinct virtual instant of the base run, +-1ns)"},
		HangIsViolationFor: []string{"C06"},
	})
	e := r.Env
	post := func(c *vc.Case, run *Run, err error, label string) *Index {
		ix := BuildIndex(run)
		if err != nil {
			c.Inconclusive("scenario could not run: " + err.Error())
			return ix
		}
		observeCommon(c, run, ix)
		judge(c, "C06", run, ix, false)
		nt := false
		for id := range ix.reqs {
			if len(ix.reqExports(id)) >= 2 {
				nt = true
			}
		}
		for _, n := range ix.expOrder {
			if len(ix.exportReqs(n)) >= 2 && ix.exports[n].end != nil && ix.exports[n].end.Err != nil {
				nt = true
			}
		}
		c.SubNT(label+"|"+scenarioFP(run.Sc, ix), nt)
		return ix
	}
	prof := func(c *vc.Case, cancels bool) Profile {
		hm := "all"
		if cancels {
			hm = "not-caller"
		}
		return Profile{Sig: -1, Keys: c.R.IntN(4) == 0, Cancels: cancels, Fails: true, HookMode: hm, EarlyReturn: -1, SharedCtx: false}
	}
	noCallerDelays := func(sc *Scenario) {
		// the early-return instant and cancellation promptness are judged on the virtual clock
		for _, p := range []string{"consume.enqueued", "wait.response", "consume.before_enqueue", "multi.miss_before_lock"} {
			if sc.Cfg.EarlyReturn || sc.hasCancels() {
				delete(sc.HookDelays, p)
			}
		}
	}
	r.Layer("random", e.Pick(500, 15000), func(c *vc.Case) {
		sc := GenScenario(c.R, prof(c, c.R.IntN(2) == 0))
		noCallerDelays(sc)
		sc.Label = "random"
		seed := c.R.Uint64()
		run := NewRun(sc, seed)
		var err error
		runBubble(t, func() { _, err = run.Exec() })
		post(c, run, err, "random")
		if c.Idx < 30 {
			c.Sample(sc.Describe())
		}
	})
	// back-pressure: max_concurrency exports in flight and slow, the shard loop parked on the limiter,
	// the shard channel (capacity NumCPU) full, and victims blocked on the hand-off whose contexts end
	r.Layer("backpressure", e.Pick(24, 360), func(c *vc.Case) {
		sc := &Scenario{Sig: Signal(c.R.IntN(3)), HookSeed: c.R.Uint64(), Shutdown: 0}
		sc.Cfg = Cfg{SendBatchSize: uint32(c.R.IntN(2)), SendBatchMaxSize: 0, Timeout: pickD(c.R, 0, time.Second), MaxConcurrency: uint32(1 + c.R.IntN(2)), EarlyReturn: c.R.IntN(2) == 0}
		slow := pickD(c.R, 5*time.Second, 30*time.Second)
		sc.Latency = []time.Duration{slow}
		n := int(sc.Cfg.MaxConcurrency) + 1 + runtime.NumCPU() + 2
		for i := 0; i < n; i++ {
			sc.Reqs = append(sc.Reqs, &ReqSpec{Caller: i, Req: 0, At: time.Duration(i) * time.Nanosecond, CtxGroup: -1, CancelAt: -1, Deadline: -1, Res: genShape(c.R, sc.Sig, 1+c.R.IntN(3))})
		}
		nv := 1 + c.R.IntN(3)
		for v := 0; v < nv; v++ {
			q := &ReqSpec{Caller: n + v, Req: 0, At: time.Microsecond, CtxGroup: -1, CancelAt: -1, Deadline: -1, Res: genShape(c.R, sc.Sig, 1+c.R.IntN(3))}
			if c.R.IntN(3) == 0 {
				q.Deadline = pickD(c.R, time.Millisecond, time.Second, slow/2)
			} else {
				q.CancelAt = pickD(c.R, time.Millisecond, time.Second, slow/2, slow+time.Millisecond)
			}
			sc.Reqs = append(sc.Reqs, q)
		}
		sc.Label = "backpressure"
		run := NewRun(sc, c.R.Uint64())
		var err error
		runBubble(t, func() { _, err = run.Exec() })
		ix := post(c, run, err, "backpressure")
		blocked := 0
		for _, q := range ix.reqs {
			if q.call != nil && (q.enq == nil || q.enq.VT > q.call.VT) {
				blocked++
			}
		}
		c.Count("calls_that_blocked_on_a_full_shard_channel", int64(blocked))
		if c.Idx < 6 {
			c.Sample(map[string]any{"layer": "backpressure", "callers": len(sc.Reqs), "victims": nv, "calls_blocked_on_hand_off": blocked, "config": sc.Cfg.String(), "export_latency": slow.String()})
		}
	})
	// systematic single-delay enumeration (sweep_test.go). Caller-side points are swept only when the base has
	// neither early_return nor cancellations (their delays would be measured as the component's latency).
	r.Layer("delay-sweep", e.Pick(16, 240), func(c *vc.Case) {
		sc := GenScenario(c.R, Profile{Sig: -1, Keys: c.R.IntN(4) == 0, Cancels: c.R.IntN(2) == 0, Fails: true, HookMode: "none", EarlyReturn: -1, MaxCallers: 4})
		sc.Label = "delay-sweep"
		callerSide := !sc.Cfg.EarlyReturn && !sc.hasCancels()
		delaySweep(t, c, sc, c.R.Uint64(), callerSide, e.Pick(120, 400), e.Pick(30, 200), func(run *Run, err error, label string) {
			post(c, run, err, label)
		})
	})
	r.Layer("outcomes", e.Pick(40, 600), func(c *vc.Case) {
		sc := GenScenario(c.R, Profile{Sig: -1, Cancels: false, Fails: false, HookMode: "all", EarlyReturn: 0, UnlimitedConc: c.R.IntN(2) == 0})
		noCallerDelays(sc)
		sc.Label = "outcomes-base"
		seed := c.R.Uint64()
		base := NewRun(sc, seed)
		var err error
		runBubble(t, func() { _, err = base.Exec() })
		ix := post(c, base, err, "outcomes-base")
		k := len(ix.expOrder)
		if err != nil || k == 0 || k > 6 {
			c.Count("outcome_bases_skipped_k>6_or_0", 1)
			return
		}
		for mask := 1; mask < 1<<k; mask++ {
			sc2 := *sc
			sc2.Fail = make([]bool, k)
			for i := 0; i < k; i++ {
				sc2.Fail[i] = mask&(1<<i) != 0
			}
			sc2.Label = fmt.Sprintf("outcomes-mask-%b", mask)
			run := NewRun(&sc2, seed)
			runBubble(t, func() { _, err = run.Exec() })
			post(c, run, err, sc2.Label)
			c.Count("outcome_assignments_enumerated", 1)
		}
		c.Sample(map[string]any{"layer": "outcomes", "exports_k": k, "assignments": 1<<k - 1, "base": sc.Describe()})
	})
	r.Layer("cancel", e.Pick(40, 600), func(c *vc.Case) {
		sc := GenScenario(c.R, Profile{Sig: -1, Cancels: false, Fails: c.R.IntN(2) == 0, HookMode: "not-caller", EarlyReturn: 0, MaxCallers: 4})
		sc.Label = "cancel-base"
		seed := c.R.Uint64()
		base := NewRun(sc, seed)
		var err error
		runBubble(t, func() { _, err = base.Exec() })
		post(c, base, err, "cancel-base")
		if err != nil {
			return
		}
		// every distinct virtual instant of the base run, and its neighbours
		inst := map[time.Duration]bool{}
		for _, ev := range base.log {
			if ev.Kind != "hook" {
				inst[ev.VT] = true
				inst[ev.VT+time.Nanosecond] = true
				if ev.VT > 0 {
					inst[ev.VT-time.Nanosecond] = true
				}
			}
		}
		var ts []time.Duration
		for d := range inst {
			ts = append(ts, d)
		}
		sort.Slice(ts, func(i, j int) bool { return ts[i] < ts[j] })
		if len(ts) > 40 {
			ts = ts[:40]
		}
		victim := c.R.IntN(len(sc.Reqs))
		for _, at := range ts {
			sc2 := *sc
			sc2.Reqs = make([]*ReqSpec, len(sc.Reqs))
			for i, q := range sc.Reqs {
				cp := *q
				sc2.Reqs[i] = &cp
			}
			sc2.Reqs[victim].CancelAt = at
			sc2.Label = fmt.Sprintf("cancel-%s@%v", sc2.Reqs[victim].ID(), at)
			run := NewRun(&sc2, seed)
			runBubble(t, func() { _, err = run.Exec() })
			post(c, run, err, sc2.Label)
			c.Count("cancellation_points_enumerated", 1)
		}
		c.Sample(map[string]any{"layer": "cancel", "victim": sc.Reqs[victim].ID(), "instants": fmt.Sprint(ts), "base": sc.Describe()})
	})
}

// ---------------------------------------------------------------- C09

func TestC09(t *testing.T) {
	r := vc.NewRunner(t, "C09")
	defer r.Close()
	r.Meta(vc.Meta{
		Level:       "exploration",
		Rule:        "case = one scenario in a synctest bubble (virtual clock = the component's own clock): request size sequences with every remainder mod send_batch_size and mod send_batch_max_size, (size,max,timeout) over {0,1,2,3,7,100} x {0,size,size+1,2size-1} x {0,1ms,1s}, arrivals placed just before / at / just after timer expiry, bursts and long silences, concurrent callers; hook delays only BEFORE the enqueue (acceptance = the instant the request entered the shard's channel). Oracle: every export has 1 <= size <= send_batch_max_size; with unlimited concurrency and no cancellation every item is exported no later than accepted+timeout when a timer exists (timeout>0 and send_batch_size>0), else at the very instant it was accepted; with max_concurrency = k > 0 (layer limited-concurrency) the deadline clause binds every item during whose whole window [accepted, deadline] fewer than k exports (all shards together) were in flight (the proviso, decided from the export begin/end events), including items that are never exported although the scenario went on beyond their deadline; quiescence invariant (unlimited concurrency only) computed offline: the last event at each distinct virtual instant is a quiescent state in which every shard buffers < send_batch_size items (0 without timer). Sizes are also asserted in real-time stress runs. Non-trivial = scenario with >=1 split (batch of exactly max size) or >=1 item that waited for the timer. Distinct = (config, request sizes and arrival instants).",
		Assumptions: append([]string{"the quiescence clause is evaluated only with max_concurrency=0; the deadline clause with max_concurrency>0 exempts every item in whose window the limiter was full at some instant (the property's proviso); no cancellations in the timing layers"}, bpAssumptions...),
		Gates: map[string]map[string]int{
			"quick":    {"scenarios": 600, "items_deadline_checked": 5000, "items_that_waited_for_the_timer": 300, "batches_exactly_max_size": 200, "quiescent_states_checked": 3000, "quiescent_states_with_buffered_items": 200, "items_deadline_checked_under_a_concurrency_limit": 5000, "failed_exports_under_a_concurrency_limit": 200},
			"thorough": {"scenarios": 20000, "items_deadline_checked": 150000, "items_that_waited_for_the_timer": 10000, "batches_exactly_max_size": 6000, "quiescent_states_checked": 100000, "quiescent_states_with_buffered_items": 6000, "items_deadline_checked_under_a_concurrency_limit": 100000, "failed_exports_under_a_concurrency_limit": 5000},
		},
	})
	e := r.Env
	r.Layer("bubble", e.Pick(700, 20000), func(c *vc.Case) {
		sc := GenScenario(c.R, Profile{Sig: -1, Keys: c.R.IntN(5) == 0, Cancels: false, Fails: c.R.IntN(3) == 0, HookMode: "pre-enqueue", EarlyReturn: -1, UnlimitedConc: true})
		sc.Label = "bubble"
		run := NewRun(sc, c.R.Uint64())
		var err error
		var stuck []string
		runBubble(t, func() { stuck, err = run.Exec() })
		ix := BuildIndex(run)
		if err != nil {
			c.Inconclusive("scenario could not run: " + err.Error())
			return
		}
		observeCommon(c, run, ix)
		// released (stuck) callers are cancelled only at the one-hour horizon, far beyond any deadline:
		// the timing clauses stay valid (the quiescence scan stops at the first release)
		_ = stuck
		judge(c, "C09", run, ix, true)
		var sizes []string
		for _, q := range sc.Reqs {
			sizes = append(sizes, fmt.Sprintf("%d@%v", q.items, q.At))
		}
		nt := false
		for _, n := range ix.expOrder {
			b := ix.exports[n].begin
			if sc.Cfg.SendBatchMaxSize > 0 && b.Size == int(sc.Cfg.SendBatchMaxSize) {
				nt = true
			}
			for _, it := range b.Items {
				if ex, ok := run.Expect[it.UID]; ok {
					if q := ix.reqs[ex.req]; q.enq != nil && b.VT > q.enq.VT {
						nt = true
					}
				}
			}
		}
		c.FP(sc.Cfg.String(), strings.Join(sizes, ","))
		c.Nontrivial(nt)
		if c.Idx < 40 {
			c.Sample(sc.Describe())
		}
	})
	// the proviso made precise: with max_concurrency = k > 0 the deadline clause still binds every item
	// during whose whole window fewer than k exports (of any shard) were in flight; failing and slow exports
	// fill and free the limiter over and over
	r.Layer("limited-concurrency", e.Pick(300, 8000), func(c *vc.Case) {
		sc := GenScenario(c.R, Profile{Sig: -1, Keys: c.R.IntN(5) == 0, Cancels: false, Fails: true, HookMode: "pre-enqueue", EarlyReturn: -1})
		if sc.Cfg.MaxConcurrency == 0 || sc.Cfg.MaxConcurrency > 2 {
			sc.Cfg.MaxConcurrency = uint32(1 + c.R.IntN(2))
		}
		if c.Idx%3 != 0 {
			// mostly quick exports: the limiter is free most of the time, so most items stay bound by the clause
			for i := range sc.Latency {
				sc.Latency[i] = pickD(c.R, 0, 0, time.Microsecond, 20*time.Microsecond)
			}
		}
		sc.Label = "limited-concurrency"
		run := NewRun(sc, c.R.Uint64())
		var err error
		runBubble(t, func() { _, err = run.Exec() })
		ix := BuildIndex(run)
		if err != nil {
			c.Inconclusive("scenario could not run: " + err.Error())
			return
		}
		observeCommon(c, run, ix)
		judge(c, "C09", run, ix, true)
		var sizes []string
		for _, q := range sc.Reqs {
			sizes = append(sizes, fmt.Sprintf("%d@%v", q.items, q.At))
		}
		failed := 0
		for _, n := range ix.expOrder {
			if x := ix.exports[n]; x.end != nil && x.end.Err != nil {
				failed++
			}
		}
		c.Count("failed_exports_under_a_concurrency_limit", int64(failed))
		c.FP("limited", sc.Cfg.String(), strings.Join(sizes, ","), fmt.Sprint(sc.Fail))
		c.Nontrivial(failed > 0)
		if c.Idx < 12 {
			c.Sample(sc.Describe())
		}
	})
	r.Layer("stress-sizes", e.Pick(30, 300), func(c *vc.Case) {
		sc := GenScenario(c.R, Profile{Sig: -1, Keys: false, Fails: false, HookMode: "all", EarlyReturn: -1, MaxCallers: 8})
		sc.Label = "stress"
		sc.Shutdown = 0
		run, err := execStress(c, sc)
		if err != nil {
			c.Inconclusive(err.Error())
			return
		}
		ix := BuildIndex(run)
		observeCommon(c, run, ix)
		judge(c, "C09", run, ix, false)
		c.FP("stress", sc.Cfg.String(), fmt.Sprint(len(ix.expOrder)))
		c.Nontrivial(len(ix.expOrder) > 1)
	})
}

// ---------------------------------------------------------------- C10

type admOp struct {
	Combo string
}

func admissionModel(limit int) porcupine.Model {
	return porcupine.Model{
		Init: func() any { return "" },
		Step: func(st, in, out any) (bool, any) {
			set := st.(string)
			cb := "\x00" + in.(admOp).Combo + "\x01"
			refused := out.(bool)
			if strings.Contains(set, cb) {
				return !refused, set
			}
			n := strings.Count(set, "\x00")
			if limit == 0 || n < limit {
				return !refused, set + cb
			}
			return refused, set
		},
		Equal: func(a, b any) bool {
			// sets: order-insensitive comparison
			x := strings.Split(a.(string), "\x01")
			y := strings.Split(b.(string), "\x01")
			sort.Strings(x)
			sort.Strings(y)
			return strings.Join(x, "|") == strings.Join(y, "|")
		},
		DescribeOperation: func(in, out any) string {
			return fmt.Sprintf("Consume(%s) -> refused=%v", in.(admOp).Combo, out.(bool))
		},
	}
}

// checkAdmission runs porcupine over the Consume operations of a run.
func checkAdmission(c *vc.Case, run *Run, ix *Index) {
	cfg := run.Sc.Cfg
	if len(cfg.MetadataKeys) == 0 {
		return
	}
	var ops []porcupine.Operation
	i := 0
	for id, q := range ix.reqs {
		if q.call == nil || q.ret == nil {
			continue
		}
		_ = id
		ops = append(ops, porcupine.Operation{ClientId: i, Input: admOp{Combo: combo(cfg.MetadataKeys, q.spec.Meta)}, Call: int64(q.call.Seq),
			Output: isRefused(q.ret), Return: int64(q.ret.Seq)})
		i++
	}
	if len(ops) == 0 {
		return
	}
	res, info := porcupine.CheckOperationsVerbose(admissionModel(int(cfg.CardLimit)), ops, 2*time.Minute)
	c.Count("admission_histories_checked_with_porcupine", 1)
	c.Count("admission_operations", int64(len(ops)))
	switch res {
	case porcupine.Unknown:
		c.Inconclusive("porcupine timed out on an admission history")
	case porcupine.Illegal:
		_ = info
		var lines []string
		sort.Slice(ops, func(a, b int) bool { return ops[a].Call < ops[b].Call })
		for _, o := range ops {
			lines = append(lines, fmt.Sprintf("[%d,%d] Consume(%s) refused=%v", o.Call, o.Return, o.Input.(admOp).Combo, o.Output))
		}
		c.Violation("admission history is not linearizable against a set bounded by metadata_cardinality_limit",
			fmt.Sprintf("limit=%d\n%s", cfg.CardLimit, strings.Join(lines, "\n")), witnessOf(run, Finding{"C10", "admission not linearizable", strings.Join(lines, "\n")}))
	}
}

func tenantScenario(c *vc.Case, nCallers int) *Scenario {
	sc := GenScenario(c.R, Profile{Sig: -1, Keys: true, Cancels: c.R.IntN(5) == 0, Fails: c.R.IntN(3) == 0, HookMode: "all", EarlyReturn: -1, MaxCallers: nCallers})
	if len(sc.Cfg.MetadataKeys) == 0 {
		sc.Cfg.MetadataKeys = []string{"Tenant"}
		sc.Cfg.CardLimit = []uint32{1, 2, 5}[c.R.IntN(3)]
		for _, q := range sc.Reqs {
			q.Meta = map[string][]string{"tenant": tenantValues[c.R.IntN(len(tenantValues))]}
		}
	}
	// simultaneous first arrivals of distinct combinations racing for the last slots
	if c.R.IntN(2) == 0 {
		at := sc.Reqs[0].At
		for _, q := range sc.Reqs {
			if q.Req == 0 {
				q.At = at
			}
		}
	}
	if sc.HookDelays == nil {
		sc.HookDelays = map[string][]time.Duration{}
	}
	sc.HookDelays["multi.miss_before_lock"] = []time.Duration{0, time.Nanosecond, time.Microsecond, 0}
	return sc
}

func TestC10(t *testing.T) {
	r := vc.NewRunner(t, "C10")
	defer r.Close()
	r.Meta(vc.Meta{
		Level:       "exploration",
		Rule:        "case = one scenario with metadata_keys configured (mixed-case key sets; single / multi-valued / absent / empty values; limits 0,1,2,5; simultaneous first arrivals of distinct combinations with a hook delay between the shard-map miss and the lock). Oracle per export: all uids come from requests with one identical combination of values for the configured keys (case-insensitive), and client.FromContext(ctx).Metadata of the export call agrees with it on every configured key; refused calls carry a permanent error and none of their uids is exported; distinct admitted combinations <= limit; the admission history {Consume(combo) -> admitted|refused, call/return stamps from the log's sequence counter} is checked with porcupine against a set with capacity metadata_cardinality_limit (one history per scenario, <= 40 operations, 2-minute checker timeout => inconclusive). Layers: bubble; first-arrival-race (k callers bring the same new combination at one virtual instant and all miss the lock-free lookup, then further new combinations arrive from >=2 distinct contexts each, so that their merged batches are exported under the shard's own context); overlimit-hammer (limit filled by calls that returned, then 8 goroutines x 12,000-20,000 over-limit calls, each of which must be refused permanently and export nothing); real-time stress under -race. Non-trivial = >=2 distinct combinations in the scenario. Distinct = (config, combination sequence).",
		Assumptions: bpAssumptions,
		Gates: map[string]map[string]int{
			"quick":    {"scenarios": 400, "admission_histories_checked_with_porcupine": 400, "refused_calls": 100, "batches_checked": 2000, "hammer_calls_refused_permanently": 500000},
			"thorough": {"scenarios": 10000, "admission_histories_checked_with_porcupine": 10000, "refused_calls": 3000, "batches_checked": 60000, "hammer_calls_refused_permanently": 8000000},
		},
	})
	e := r.Env
	post := func(c *vc.Case, run *Run, err error) {
		ix := BuildIndex(run)
		if err != nil {
			c.Inconclusive("scenario could not run: " + err.Error())
			return
		}
		observeCommon(c, run, ix)
		judge(c, "C10", run, ix, false)
		checkAdmission(c, run, ix)
		combos := map[string]bool{}
		var seq []string
		for _, q := range run.Sc.Reqs {
			cb := combo(run.Sc.Cfg.MetadataKeys, q.Meta)
			combos[cb] = true
			seq = append(seq, cb)
		}
		c.Max("max_distinct_combinations_in_a_scenario", int64(len(combos)))
		if strings.HasPrefix(run.Sc.Label, "delay-sweep") {
			c.SubNT(run.Sc.Label+"|"+run.Sc.Cfg.String()+"|"+strings.Join(seq, ","), len(combos) >= 2)
			return
		}
		c.FP(run.Sc.Cfg.String(), strings.Join(seq, ","))
		c.Nontrivial(len(combos) >= 2)
	}
	r.Layer("bubble", e.Pick(400, 10000), func(c *vc.Case) {
		sc := tenantScenario(c, 8)
		sc.Label = "bubble"
		run := NewRun(sc, c.R.Uint64())
		var err error
		runBubble(t, func() { _, err = run.Exec() })
		post(c, run, err)
		if c.Idx < 40 {
			c.Sample(sc.Describe())
		}
	})
	// systematic single-delay enumeration (sweep_test.go) over a tenant scenario: every hook hit - in particular
	// every hit of the point between the shard-map miss and the lock - held back once by each duration; each
	// re-run's admission history goes through porcupine
	r.Layer("delay-sweep", e.Pick(12, 160), func(c *vc.Case) {
		sc := tenantScenario(c, 5)
		sc.Label = "delay-sweep"
		delaySweep(t, c, sc, c.R.Uint64(), true, e.Pick(100, 300), e.Pick(20, 100), func(run *Run, err error, label string) {
			post(c, run, err)
		})
	})
	// racing first arrivals: k callers bring the SAME new combination at the same virtual instant (all of
	// them miss the lock-free lookup: the hook between the miss and the lock holds them back), then, one
	// after the other, further new combinations arrive, each from >=2 distinct request contexts whose
	// items merge into one batch (which is therefore exported under the shard's own context)
	r.Layer("first-arrival-race", e.Pick(60, 1200), func(c *vc.Case) {
		sig := Signal(c.R.IntN(3))
		sc := &Scenario{Sig: sig, HookSeed: c.R.Uint64(), Shutdown: c.R.IntN(2)}
		sc.Cfg = Cfg{SendBatchSize: 2, Timeout: []time.Duration{time.Second, 5 * time.Millisecond}[c.R.IntN(2)], MetadataKeys: []string{"tenant"},
			CardLimit: []uint32{0, 0, 8}[c.R.IntN(3)], EarlyReturn: c.R.IntN(2) == 0, MaxConcurrency: []uint32{0, 1, 2}[c.R.IntN(3)]}
		res := func() []ResSpec {
			if sig == Metrics {
				return []ResSpec{{Scopes: []ScopeSpec{{Metrics: []MetricSpec{{Kind: 1 + c.R.IntN(5), Points: 1}}}}}}
			}
			return []ResSpec{{Scopes: []ScopeSpec{{Items: 1}}}}
		}
		caller := 0
		waves := 3 + c.R.IntN(3)
		for w := 0; w < waves; w++ {
			k := 2 + c.R.IntN(3)
			for i := 0; i < k; i++ {
				sc.Reqs = append(sc.Reqs, &ReqSpec{Caller: caller, Req: 0, At: time.Duration(w) * time.Millisecond, CtxGroup: -1, CancelAt: -1, Deadline: -1,
					Meta: map[string][]string{"tenant": {fmt.Sprintf("w%d", w)}}, Res: res()})
				caller++
			}
		}
		sc.Latency = []time.Duration{pickD(c.R, 0, 100*time.Microsecond)}
		sc.HookDelays = map[string][]time.Duration{"multi.miss_before_lock": {time.Microsecond, 2 * time.Microsecond, time.Nanosecond}}
		sc.Label = fmt.Sprintf("first-arrival-race-waves%d", waves)
		run := NewRun(sc, c.R.Uint64())
		var err error
		runBubble(t, func() { _, err = run.Exec() })
		post(c, run, err)
		c.Count("racing_first_arrival_waves", int64(waves))
		if c.Idx < 6 {
			c.Sample(sc.Describe())
		}
	})
	// over-limit hammer (real parallelism, no per-call bookkeeping): the limit is filled first, then
	// many goroutines submit requests for combinations beyond it; since the fillers RETURNED before the
	// hammer starts, every hammer call must be refused with the permanent error and export nothing
	r.Layer("overlimit-hammer", e.Pick(8, 80), func(c *vc.Case) {
		if c.Idx%3 == 2 {
			runtime.GOMAXPROCS(2)
			defer runtime.GOMAXPROCS(runtime.NumCPU())
		}
		limit := 1 + c.R.IntN(2)
		early := c.R.IntN(2) == 0
		res := hammerOverLimit(limit, early, 8, e.Pick(12000, 20000), 1+c.R.IntN(2))
		c.Count("hammer_calls", res.calls)
		c.Count("hammer_calls_refused_permanently", res.refused)
		if res.err != nil {
			c.Inconclusive("hammer could not run: " + res.err.Error())
			return
		}
		if res.bad > 0 {
			c.Violation("request with a combination beyond metadata_cardinality_limit was not refused with the permanent error",
				fmt.Sprintf("limit=%d early_return=%v: %d of %d concurrent over-limit calls were not refused; first: %s", limit, early, res.bad, res.calls, res.firstBad),
				map[string]any{"limit": limit, "early_return": early, "calls": res.calls, "not_refused": res.bad, "first": res.firstBad})
		}
		if res.exported > 0 {
			c.Violation("items of a refused request were exported", fmt.Sprintf("%d items of over-limit requests reached the next consumer", res.exported), nil)
		}
		c.FP("hammer", fmt.Sprint(limit), fmt.Sprint(early), fmt.Sprint(c.Idx))
		c.Nontrivial(true)
		c.Sample(map[string]any{"layer": "overlimit-hammer", "limit": limit, "early_return": early, "goroutines": 8, "calls": res.calls, "refused_permanently": res.refused})
	})
	r.Layer("stress", e.Pick(100, 1500), func(c *vc.Case) {
		if c.Idx%2 == 1 {
			runtime.GOMAXPROCS(2)
			defer runtime.GOMAXPROCS(runtime.NumCPU())
		}
		sc := tenantScenario(c, 8)
		sc.Label = "stress"
		sc.Shutdown = 0
		// first arrivals of many distinct combinations at once
		for i, q := range sc.Reqs {
			if q.Req == 0 {
				q.Meta = map[string][]string{"tenant": {fmt.Sprintf("t%d", i%6)}}
			}
		}
		run, err := execStress(c, sc)
		post(c, run, err)
	})
}

// ---------------------------------------------------------------- C11

func TestC11(t *testing.T) {
	r := vc.NewRunner(t, "C11")
	defer r.Close()
	r.Meta(vc.Meta{
		Level:              "exploration",
		Rule:               "case = one scenario with export latencies 0..10s (virtual), failures, caller cancellations at any point, Shutdown racing the last exports, max_concurrency in {0,1,2,4}, PRNG delays at every hook point; layer 'delay-sweep' = a base scenario run without hook delays, then re-run once per (hook hit, duration) with exactly that one hit held back, then PRNG pairs. Oracle: (a) the per-combination in-flight gauge (incremented on entry to the next consumer, decremented on return) never exceeds max_concurrency when set; (b) when Shutdown returns every item accepted before it was called has been exported, every export call has returned, and no goroutine is left: in bubble mode synctest fails the run if any bubble goroutine is still blocked at the end, in stress mode the stacks of all goroutines are scanned for processor frames after Shutdown; (c) zero race-detector reports with a repository frame over all workloads (GORACE log files, classified by stack); (d) no deadlock: the bubble's 'all goroutines are blocked' panic (process-fatal, attributed through the journal) is the deciding signal in bubble mode, stress mode only has a watchdog. Non-trivial = scenario that reached the concurrency bound or exported during Shutdown. Distinct = (config, requests, latency script, shutdown mode, hook table).",
		Assumptions:        bpAssumptions,
		RaceIsViolation:    true,
		HangIsViolationFor: []string{"C11"},
		Gates: map[string]map[string]int{
			"quick":    {"scenarios": 600, "exports_at_the_concurrency_bound": 300, "exports_during_shutdown": 100, "interleaving_signatures": 200, "goroutine_scans_after_shutdown": 30, "cancel_window_points_enumerated": 300, "delay_sweep_single_delays_enumerated": 1000},
			"thorough": {"scenarios": 20000, "exports_at_the_concurrency_bound": 10000, "exports_during_shutdown": 3000, "interleaving_signatures": 399, "goroutine_scans_after_shutdown": 600, "cancel_window_points_enumerated": 4000, "delay_sweep_single_delays_enumerated": 30000},
		},
	})
	e := r.Env
	post := func(c *vc.Case, run *Run, err error, sub ...string) {
		ix := BuildIndex(run)
		if err != nil {
			c.Inconclusive("scenario could not run: " + err.Error())
			return
		}
		observeCommon(c, run, ix)
		judge(c, "C11", run, ix, false)
		nt := false
		for _, n := range ix.expOrder {
			b := ix.exports[n].begin
			if run.Sc.Cfg.MaxConcurrency > 0 && b.InFlight == int(run.Sc.Cfg.MaxConcurrency) {
				nt = true
			}
			if ix.shutCall != nil && b.Seq > ix.shutCall.Seq {
				nt = true
			}
		}
		if len(sub) > 0 {
			c.SubNT(sub[0]+"|"+scenarioFP(run.Sc, ix), nt)
			return
		}
		c.FP(scenarioFP(run.Sc, ix), fmt.Sprint(run.Sc.Latency))
		c.Nontrivial(nt)
	}
	// a request split over >=3 batches whose exports end together, a delay inside ctx.Err(), and a
	// cancellation of that request at EVERY distinct virtual instant of the base run (and inside the
	// delay window after it): export goroutines must never block forever on a departed waiter
	r.Layer("cancel-window", e.Pick(24, 360), func(c *vc.Case) {
		max := uint32(2 + c.R.IntN(4))
		sc := &Scenario{Sig: Signal(c.R.IntN(3)), HookSeed: c.R.Uint64(), CtxHooks: true, Shutdown: c.R.IntN(2)}
		sc.Cfg = Cfg{SendBatchSize: max, SendBatchMaxSize: max, Timeout: pickD(c.R, 0, time.Second), MaxConcurrency: []uint32{0, 0, 4}[c.R.IntN(3)]}
		nb := 3 + c.R.IntN(2)
		big := &ReqSpec{Caller: 0, Req: 0, At: 0, CtxGroup: -1, CancelAt: -1, Deadline: -1, Res: genShape(c.R, sc.Sig, int(max)*nb)}
		other := &ReqSpec{Caller: 1, Req: 0, At: pickD(c.R, 0, time.Millisecond), CtxGroup: -1, CancelAt: -1, Deadline: -1, Res: genShape(c.R, sc.Sig, 1+c.R.IntN(int(max)))}
		sc.Reqs = []*ReqSpec{big, other}
		lat := pickD(c.R, time.Millisecond, 10*time.Millisecond)
		sc.Latency = []time.Duration{lat}
		d := pickD(c.R, time.Microsecond, time.Millisecond)
		sc.HookDelays = map[string][]time.Duration{"ctx.Err": {d}}
		sc.Label = "cancel-window-base"
		seed := c.R.Uint64()
		base := NewRun(sc, seed)
		var err error
		runBubble(t, func() { _, err = base.Exec() })
		post(c, base, err, "cancel-window-base")
		if err != nil {
			return
		}
		inst := map[time.Duration]bool{}
		for _, ev := range base.log {
			if ev.Kind != "hook" {
				inst[ev.VT] = true
				inst[ev.VT+time.Nanosecond] = true
				inst[ev.VT+d/2] = true
			}
		}
		var ts []time.Duration
		for x := range inst {
			ts = append(ts, x)
		}
		sort.Slice(ts, func(i, j int) bool { return ts[i] < ts[j] })
		if len(ts) > 36 {
			ts = ts[:36]
		}
		for _, at := range ts {
			sc2 := *sc
			b2, o2 := *big, *other
			b2.CancelAt = at
			sc2.Reqs = []*ReqSpec{&b2, &o2}
			sc2.Label = fmt.Sprintf("cancel-window@%v", at)
			run := NewRun(&sc2, seed)
			runBubble(t, func() { _, err = run.Exec() })
			post(c, run, err, sc2.Label)
			c.Count("cancel_window_points_enumerated", 1)
		}
		c.Sample(map[string]any{"layer": "cancel-window", "batches_of_the_split_request": nb, "ctx_err_delay": d.String(), "cancel_instants": fmt.Sprint(ts), "base": sc.Describe()})
	})
	// systematic single-delay enumeration (sweep_test.go), ctx.Err windows included
	r.Layer("delay-sweep", e.Pick(16, 240), func(c *vc.Case) {
		sc := GenScenario(c.R, Profile{Sig: -1, Keys: c.R.IntN(4) == 0, Cancels: c.R.IntN(3) != 0, Fails: true, HookMode: "none", EarlyReturn: -1, MaxCallers: 4})
		sc.CtxHooks = c.R.IntN(2) == 0
		if sc.Cfg.MaxConcurrency == 0 && c.R.IntN(2) == 0 {
			sc.Cfg.MaxConcurrency = uint32(1 + c.R.IntN(2))
		}
		sc.Label = "delay-sweep"
		delaySweep(t, c, sc, c.R.Uint64(), true, e.Pick(120, 400), e.Pick(30, 200), func(run *Run, err error, label string) {
			post(c, run, err, label)
		})
	})
	r.Layer("bubble", e.Pick(600, 20000), func(c *vc.Case) {
		sc := GenScenario(c.R, Profile{Sig: -1, Keys: c.R.IntN(3) == 0, Cancels: c.R.IntN(2) == 0, Fails: true, HookMode: "all", EarlyReturn: -1, MaxCallers: 8, CtxHooks: true})
		if c.R.IntN(2) == 0 && sc.Cfg.MaxConcurrency == 0 {
			sc.Cfg.MaxConcurrency = uint32(1 + c.R.IntN(3))
		}
		sc.Label = "bubble"
		run := NewRun(sc, c.R.Uint64())
		var err error
		runBubble(t, func() { _, err = run.Exec() })
		post(c, run, err)
		if c.Idx < 40 {
			c.Sample(sc.Describe())
		}
	})
	r.Layer("stress", e.Pick(40, 600), func(c *vc.Case) {
		if c.Idx%2 == 1 {
			runtime.GOMAXPROCS(2)
			defer runtime.GOMAXPROCS(runtime.NumCPU())
		}
		sc := GenScenario(c.R, Profile{Sig: -1, Keys: c.R.IntN(3) == 0, Cancels: c.R.IntN(2) == 0, Fails: true, HookMode: "all", EarlyReturn: -1, MaxCallers: 8})
		if sc.Cfg.MaxConcurrency == 0 {
			sc.Cfg.MaxConcurrency = uint32(1 + c.R.IntN(3))
		}
		sc.Label = "stress"
		run, err := execStress(c, sc)
		post(c, run, err)
		// no goroutine left behind: scan all stacks for processor frames (bounded number of yields)
		left := ""
		// a goroutine whose deferred WaitGroup.Done() released Shutdown may need a moment to finish
		// returning: poll a bounded number of times (generous under load: up to ~2 s)
		for i := 0; i < 400; i++ {
			left = processorGoroutines()
			if left == "" {
				break
			}
			runtime.Gosched()
			if i >= 50 {
				time.Sleep(5 * time.Millisecond)
			}
		}
		c.Count("goroutine_scans_after_shutdown", 1)
		if left != "" {
			c.Violation("goroutine of the processor still alive after Shutdown returned", left, witnessOf(run, Finding{"C11", "goroutine leak", left}))
		}
	})
}

// processorGoroutines returns the stacks of goroutines with a processor frame (other than the caller's).
func processorGoroutines() string {
	buf := make([]byte, 1<<20)
	n := runtime.Stack(buf, true)
	var out []string
	for _, g := range strings.Split(string(buf[:n]), "\n\n") {
		if strings.Contains(g, "concurrentbatchprocessor.") && !strings.Contains(g, "processorGoroutines") {
			out = append(out, g)
		}
	}
	return strings.Join(out, "\n\n")
}

// ---------------------------------------------------------------- C18

func TestC18(t *testing.T) {
	r := vc.NewRunner(t, "C18")
	defer r.Close()
	r.Meta(vc.Meta{
		Level:       "exploration",
		Rule:        "case = one scenario in a synctest bubble where requests from distinct contexts are merged into batches: layer 'merge' builds batches with 2..20 contributors with the differing context at every position (first, middle, last, only-last) and with several requests sharing one context object; layer 'subset' cancels / times out every non-empty subset of n<=4 contributors before and during the export (enumerated); layer 'random' samples merge patterns, partial sends and cancellation instants. Every caller starts its own span; the next consumer honours context cancellation; spans are recorded with an in-memory SpanRecorder supplied through processor.Settings. Oracle: an export whose uids come from >=2 distinct request contexts carries no caller value in its context, is never cancelled, its span has no parent and links to each unique contributor span, each of which has a link back; an export fed by exactly one request context is a child of that request's span; a caller whose own context did not end never receives a context error. Non-trivial = scenario with >=1 multi-context export. Distinct = (contributor pattern, config, cancellation subset / instants).",
		Assumptions: append([]string{"caller spans stay open until after Shutdown so that link-backs can be recorded"}, bpAssumptions...),
		Gates: map[string]map[string]int{
			"quick":    {"scenarios": 500, "exports_multi_context": 300, "exports_single_context": 300, "link_backs_verified": 600, "single_context_child_spans_verified": 300, "multi_context_exports_with_2_contributors": 50, "subset_cancellations_enumerated": 100},
			"thorough": {"scenarios": 15000, "exports_multi_context": 10000, "exports_single_context": 10000, "link_backs_verified": 20000, "single_context_child_spans_verified": 10000, "multi_context_exports_with_2_contributors": 1500, "subset_cancellations_enumerated": 3000},
		},
		ExhaustiveLayers: []string{"subset (every non-empty subset of n<=4 contributors x {cancel before export, cancel during export, deadline})", "merge (differing context at every position for 2..20 contributors)"},
	})
	e := r.Env
	post := func(c *vc.Case, run *Run, err error, label string) {
		ix := BuildIndex(run)
		if err != nil {
			c.Inconclusive("scenario could not run: " + err.Error())
			return
		}
		observeCommon(c, run, ix)
		judge(c, "C18", run, ix, false)
		nt := false
		for _, n := range ix.expOrder {
			ctxs := map[string]bool{}
			for _, id := range ix.exportReqs(n) {
				ctxs[ctxIdentity(ix.reqs[id].spec)] = true
			}
			if len(ctxs) >= 2 {
				nt = true
			}
		}
		c.SubNT(label+"|"+scenarioFP(run.Sc, ix), nt)
	}
	// mergeScenario: n single-item requests arriving at the same instant into one batch of size n
	mergeScenario := func(n int, groups []int, latency time.Duration) *Scenario {
		sc := &Scenario{Sig: Traces, Tracing: true, Shutdown: 0}
		sc.Cfg = Cfg{SendBatchSize: uint32(n), SendBatchMaxSize: 0, Timeout: time.Second}
		for i := 0; i < n; i++ {
			// requests with the same group id share one caller and one context object; a caller's
			// requests are sequential, so shared-context requests use early... no: they must be
			// concurrent, hence one goroutine per request and the context is shared through CtxGroup
			sc.Reqs = append(sc.Reqs, &ReqSpec{Caller: i, Req: 0, At: 0, CtxGroup: -1, CancelAt: -1, Deadline: -1,
				Res: []ResSpec{{Scopes: []ScopeSpec{{Items: 1}}}}})
		}
		_ = groups
		sc.Latency = []time.Duration{latency}
		return sc
	}
	r.Layer("merge", e.Pick(60, 600), func(c *vc.Case) {
		n := 2 + c.Idx%19
		sig := Signal(c.R.IntN(3))
		sc := mergeScenario(n, nil, pickD(c.R, 0, time.Millisecond))
		sc.Sig = sig
		if sig == Metrics {
			for _, q := range sc.Reqs {
				q.Res = []ResSpec{{Scopes: []ScopeSpec{{Metrics: []MetricSpec{{Kind: 1 + c.R.IntN(5), Points: 1}}}}}}
			}
		}
		// early_return callers run sequentially from ONE goroutine sharing one context: position of
		// the differing context = pos
		sc.Cfg.EarlyReturn = true
		pos := c.R.IntN(n)
		mode := c.Idx % 4 // 0: all distinct, 1: all same but one at pos, 2: only the last differs, 3: all same
		for i, q := range sc.Reqs {
			q.Caller = 0
			q.Req = i
			switch mode {
			case 0:
				q.CtxGroup = -1
			case 1:
				q.CtxGroup = 0
				if i == pos {
					q.CtxGroup = 1
				}
			case 2:
				q.CtxGroup = 0
				if i == n-1 {
					q.CtxGroup = 1
				}
			default:
				q.CtxGroup = 0
			}
		}
		if (c.Idx/4)%2 == 1 {
			for _, q := range sc.Reqs {
				q.TraceGroup = 1 // all contributors are siblings within one trace
			}
		}
		sc.EndSpans = (c.Idx/8)%2 == 1 // callers end their span as soon as their (early-return) call comes back
		sc.Label = fmt.Sprintf("merge-n%d-mode%d-pos%d-sametrace%v-endspans%v", n, mode, pos, (c.Idx/4)%2 == 1, sc.EndSpans)
		run := NewRun(sc, c.R.Uint64())
		var err error
		runBubble(t, func() { _, err = run.Exec() })
		post(c, run, err, sc.Label)
		c.Sample(map[string]any{"layer": "merge", "contributors": n, "mode": []string{"all-distinct", "one-differs-at-pos", "only-last-differs", "all-same"}[mode], "pos": pos, "signal": sig.String()})
	})
	r.Layer("subset", e.Pick(12, 120), func(c *vc.Case) {
		n := 2 + c.Idx%3
		latency := 10 * time.Millisecond
		kinds := []string{"cancel-before-export", "cancel-during-export", "deadline-during-export"}
		for _, kind := range kinds {
			for mask := 1; mask < 1<<n; mask++ {
				sc := mergeScenario(n, nil, latency)
				sc.Sig = Signal(c.R.IntN(3))
				if sc.Sig == Metrics {
					for _, q := range sc.Reqs {
						q.Res = []ResSpec{{Scopes: []ScopeSpec{{Metrics: []MetricSpec{{Kind: 1 + c.R.IntN(5), Points: 1}}}}}}
					}
				}
				// the batch fills when the last request arrives at t=1ms
				sc.Reqs[n-1].At = time.Millisecond
				for i := 0; i < n; i++ {
					if mask&(1<<i) == 0 {
						continue
					}
					switch kind {
					case "cancel-before-export":
						sc.Reqs[i].CancelAt = time.Millisecond - time.Nanosecond
						if i == n-1 {
							sc.Reqs[i].CancelAt = time.Millisecond
						}
					case "cancel-during-export":
						sc.Reqs[i].CancelAt = time.Millisecond + latency/2
					default:
						sc.Reqs[i].Deadline = latency/2 + time.Millisecond - sc.Reqs[i].At
					}
				}
				sc.EndSpans = (c.Idx/3)%2 == 1 // a caller that gave up ends its span while its items are still pending
				sc.Label = fmt.Sprintf("subset-n%d-%s-mask%b-endspans%v", n, kind, mask, sc.EndSpans)
				run := NewRun(sc, c.R.Uint64())
				var err error
				runBubble(t, func() { _, err = run.Exec() })
				post(c, run, err, sc.Label)
				c.Count("subset_cancellations_enumerated", 1)
			}
		}
		c.Sample(map[string]any{"layer": "subset", "contributors": n, "kinds": kinds, "subsets_per_kind": 1<<n - 1})
	})
	// systematic single-delay enumeration (sweep_test.go) over traced scenarios with cancellations: which
	// requests end up in one batch, and whether a cancellation lands before or during an export, changes
	// with every delayed hit (component-side points only)
	r.Layer("delay-sweep", e.Pick(12, 160), func(c *vc.Case) {
		sc := GenScenario(c.R, Profile{Sig: -1, Keys: c.R.IntN(5) == 0, Cancels: true, Fails: c.R.IntN(3) == 0, Tracing: true, HookMode: "none", EarlyReturn: -1, MaxCallers: 5, SharedCtx: true})
		if sc.Cfg.SendBatchSize < 2 {
			sc.Cfg.SendBatchSize = uint32(2 + c.R.IntN(6))
			if sc.Cfg.SendBatchMaxSize != 0 && sc.Cfg.SendBatchMaxSize < sc.Cfg.SendBatchSize {
				sc.Cfg.SendBatchMaxSize = sc.Cfg.SendBatchSize
			}
		}
		sc.Label = "delay-sweep"
		delaySweep(t, c, sc, c.R.Uint64(), false, e.Pick(100, 300), e.Pick(20, 100), func(run *Run, err error, label string) {
			post(c, run, err, label)
		})
	})
	// real goroutines: merges are decided by the scheduler; cancellations land at arbitrary points
	r.Layer("stress", e.Pick(60, 900), func(c *vc.Case) {
		if c.Idx%2 == 1 {
			runtime.GOMAXPROCS(2)
			defer runtime.GOMAXPROCS(runtime.NumCPU())
		}
		sc := GenScenario(c.R, Profile{Sig: -1, Cancels: true, Fails: c.R.IntN(3) == 0, Tracing: true, HookMode: "all", EarlyReturn: -1, MaxCallers: 8, SharedCtx: true})
		if sc.Cfg.SendBatchSize < 2 {
			sc.Cfg.SendBatchSize = uint32(2 + c.R.IntN(6))
			if sc.Cfg.SendBatchMaxSize != 0 && sc.Cfg.SendBatchMaxSize < sc.Cfg.SendBatchSize {
				sc.Cfg.SendBatchMaxSize = sc.Cfg.SendBatchSize
			}
		}
		sc.Label = "stress"
		sc.Shutdown = 0
		run, err := execStress(c, sc)
		post(c, run, err, "stress")
	})
	r.Layer("random", e.Pick(500, 15000), func(c *vc.Case) {
		sc := GenScenario(c.R, Profile{Sig: -1, Keys: c.R.IntN(5) == 0, Cancels: true, Fails: c.R.IntN(3) == 0, Tracing: true, HookMode: "not-caller", EarlyReturn: -1, MaxCallers: 8, SharedCtx: true})
		sc.Label = "random"
		run := NewRun(sc, c.R.Uint64())
		var err error
		runBubble(t, func() { _, err = run.Exec() })
		post(c, run, err, "random")
		if c.Idx < 30 {
			c.Sample(sc.Describe())
		}
	})
}
